#!/bin/bash
# Builds /verif/.venv: an overlay on /venv (repo deps + /repo itself via .pth) plus crosshair-tool/z3 from the offline wheelhouse.
set -e
cd "$(dirname "$0")"
if [ -x .venv/bin/python ] && .venv/bin/python -c "import crosshair, z3, reactivex" 2>/dev/null; then exit 0; fi
rm -rf .venv
/venv/bin/python -m venv .venv
SP=$(.venv/bin/python -c "import site;print(site.getsitepackages()[0])")
printf "import site; site.addsitedir('/venv/lib/python3.12/site-packages')\n/repo\n" > "$SP/verif_overlay.pth"
PIP_NO_INDEX=1 .venv/bin/pip install -q --no-index --find-links /opt/veriftools/wheels crosshair-tool
.venv/bin/python -c "import crosshair, z3, reactivex; print('verif venv ok', crosshair.__version__, z3.get_version_string())"
