"""A subscriber whose subscribe() overlaps Subject.on_error() is told the stream *completed*.

Observer.on_error sets is_stopped before Subject._on_error_core stores the exception under the lock; a subscriber that takes the
lock in between sees a stopped subject without an exception.  The interleaving is forced with a pausing lock object installed
through the public `lock` attribute.  Exit 1 when the subscriber receives on_completed from a subject that terminated with an error.
"""
import threading

from reactivex.subject import AsyncSubject, BehaviorSubject, Subject


class PausingLock:
    def __init__(self):
        self.inner, self.n, self.paused, self.go, self.who = threading.RLock(), 0, threading.Event(), threading.Event(), None

    def __enter__(self):
        if threading.get_ident() == self.who:
            self.n += 1
            if self.n == 2:  # the producer is about to enter _on_error_core
                self.paused.set()
                self.go.wait(2)
        return self.inner.__enter__()

    def __exit__(self, *a):
        return self.inner.__exit__(*a)


bad = []
for mk in (Subject, lambda: BehaviorSubject(0), AsyncSubject):
    s = mk()
    lk = s.lock = PausingLock()

    def produce():
        lk.who = threading.get_ident()
        s.on_error(RuntimeError("boom"))

    t = threading.Thread(target=produce)
    t.start()
    lk.paused.wait(2)
    got = []
    s.subscribe(lambda v: got.append(("N", v)), lambda e: got.append(("E", str(e))), lambda: got.append(("C",)))
    lk.go.set()
    t.join()
    print(type(s).__name__, got)
    if ("C",) in got:
        bad.append(type(s).__name__)
raise SystemExit(1 if bad else 0)
