"""Demo of the defect repaired by fix 5c30f23: before the fix the lines for 2 and 3 keys end with RAISED RuntimeError(OrderedDict mutated during iteration)
and lack (C, 1) / outerC.  Run: PYTHONPATH=/repo /venv/bin/python findings/C19-groupbyuntil-completion-demo.py"""
import reactivex
from reactivex import operators as ops
from reactivex.subject import Subject
for nkeys in (1,2,3):
    s = Subject(); log=[]
    def attach(g, log=log):
        g.subscribe(lambda v,k=g.key: log.append(("N",k,v)), lambda e,k=g.key: log.append(("E",k,repr(e))), lambda k=g.key: log.append(("C",k)))
    s.pipe(ops.group_by_until(lambda x: x % nkeys, None, lambda grp: grp.pipe(ops.skip(5)))).subscribe(attach, lambda e: log.append(("outerE", repr(e))), lambda: log.append(("outerC",)))
    for i in range(nkeys): s.on_next(i)
    try:
        s.on_completed()
    except Exception as e:
        log.append(("RAISED", repr(e)))
    print(nkeys, log)
