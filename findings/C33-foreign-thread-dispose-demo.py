import asyncio, threading, time
from reactivex.scheduler.eventloop import AsyncIOThreadSafeScheduler

loop = asyncio.new_event_loop()
go_dispose, disposed = threading.Event(), threading.Event()
real_call_later = loop.call_later
def slow_call_later(delay, cb, *a):
    h = real_call_later(delay, cb, *a)       # the timer is armed ...
    go_dispose.set()                          # ... and the loop thread is slow for a moment before stage2 records the handle
    disposed.wait(0.5)
    return h
loop.call_later = slow_call_later
t = threading.Thread(target=loop.run_forever, daemon=True); t.start()
while not loop.is_running(): time.sleep(0.01)
sch = AsyncIOThreadSafeScheduler(loop)
ran = []
d = sch.schedule_relative(0.2, lambda s, st: ran.append(time.time()))
go_dispose.wait(2)
d.dispose(); t_disp = time.time(); disposed.set()
time.sleep(1.0)
loop.call_soon_threadsafe(loop.stop)
print("action started after dispose() returned" if ran and ran[0] > t_disp else "ok: cancelled", ran, t_disp)
raise SystemExit(1 if ran else 0)
