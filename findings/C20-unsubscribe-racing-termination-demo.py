"""subscription.dispose() racing the subject's termination raises ValueError (list.remove(x): x not in list).

InnerSubscription.dispose / ReplaySubject's RemovableDisposable.dispose check `observer in subject.observers` and then remove it
without holding the subject's lock, while on_completed / on_error clear that list under the lock.  The interleaving is forced with
a list subclass (installed through the public `observers` attribute) whose membership test pauses.  Exit 1 if dispose() raised.
"""
import threading

from reactivex.subject import ReplaySubject, Subject


class PausingList(list):
    paused, go = None, None

    def __contains__(self, x):
        r = super().__contains__(x)
        if self.paused is not None and not self.paused.is_set():
            self.paused.set()
            self.go.wait(1)
        return r


bad = []
for mk in (Subject, ReplaySubject):
    s = mk()
    s.observers = PausingList()
    d = s.subscribe(lambda v: None)
    s.observers.paused, s.observers.go = threading.Event(), threading.Event()
    obs = s.observers
    err = []

    def unsub():
        try:
            d.dispose()
        except Exception as e:  # noqa: BLE001
            err.append(e)

    t = threading.Thread(target=unsub)
    t.start()
    obs.paused.wait(2)
    done = threading.Thread(target=s.on_completed)
    done.start()
    done.join(0.3)
    obs.go.set()
    t.join()
    done.join()
    print(type(s).__name__, "dispose() raised %r" % err[0] if err else "ok")
    if err:
        bad.append(1)
raise SystemExit(1 if bad else 0)
