"""C13 — multi-source combinators follow their pairing rules."""
import reactivex
from reactivex import operators as ops

from engine.api import I, harness, cover
from engine.lib import Injected, make_scheduler, messages, rec_tuples, same, times_from_gaps

ERRS = [Injected("s0"), Injected("s1"), Injected("s2")]


def build_sources(sch, a, S, n, log, cold=False):
    """S sources with n elements each; a tap on each source records the actual delivery order (same-instant ties are thereby
    resolved exactly as they happened, no tie-break is imposed on the operator)"""
    srcs, raw = [], []
    ns = n if isinstance(n, list) else [n] * S
    off = 0
    for j in range(S):
        vals = [100 * j + i for i in range(ns[j])]
        g = a.g[off:off + ns[j]]
        off += ns[j]
        base = 205 if not cold else 5
        msgs = messages(vals, g, a.term[j], 1 + a.tg[j], base=base, err=ERRS[j])
        o = (sch.create_cold_observable if cold else sch.create_hot_observable)(msgs)
        raw.append(o)
        srcs.append(o.pipe(ops.do_action(
            (lambda j: lambda v: log.append((j, "N", v, sch.clock)))(j),
            (lambda j: lambda e: log.append((j, "E", e, sch.clock)))(j),
            (lambda j: lambda: log.append((j, "C", None, sch.clock)))(j))))
    return srcs, raw


def ref_zip(log, S):
    q = [[] for _ in range(S)]
    done = [False] * S
    out = []
    for j, k, v, t in log:
        if k == "N":
            q[j].append(v)
            if all(q):
                out.append((t, "N", tuple(x.pop(0) for x in q)))
                if any(done[i] and not q[i] for i in range(S)):
                    out.append((t, "C", None))
                    return out
        elif k == "C":
            done[j] = True
            if not q[j]:
                out.append((t, "C", None))
                return out
        else:
            out.append((t, "E", v))
            return out
    return out


def ref_combine_latest(log, S):
    latest, has = [None] * S, [False] * S
    done = [False] * S
    out = []
    for j, k, v, t in log:
        if k == "N":
            latest[j], has[j] = v, True
            if all(has):
                out.append((t, "N", tuple(latest)))
        elif k == "C":
            done[j] = True
            if all(done):
                out.append((t, "C", None))
                return out
        else:
            out.append((t, "E", v))
            return out
    return out


def ref_with_latest_from(log, S):
    latest, has = [None] * S, [False] * S
    out = []
    for j, k, v, t in log:
        if k == "N":
            if j == 0:
                if all(has[1:]):
                    out.append((t, "N", tuple([v] + latest[1:])))
            else:
                latest[j], has[j] = v, True
        elif k == "C":
            if j == 0:
                out.append((t, "C", None))
                return out
        else:
            out.append((t, "E", v))
            return out
    return out


def ref_fork_join(log, S):
    last, has, done = [None] * S, [False] * S, [False] * S
    out = []
    for j, k, v, t in log:
        if k == "N":
            last[j], has[j] = v, True
        elif k == "C":
            done[j] = True
            if not has[j]:
                out.append((t, "C", None))
                return out
            if all(done):
                out.append((t, "N", tuple(last)))
                out.append((t, "C", None))
                return out
        else:
            out.append((t, "E", v))
            return out
    return out


COMB = {
    "zip": (lambda xs: reactivex.zip(*xs), ref_zip, True),
    "op_zip": (lambda xs: xs[0].pipe(ops.zip(*xs[1:])), ref_zip, True),
    "combine_latest": (lambda xs: reactivex.combine_latest(*xs), ref_combine_latest, False),
    "op_combine_latest": (lambda xs: xs[0].pipe(ops.combine_latest(*xs[1:])), ref_combine_latest, False),
    "with_latest_from": (lambda xs: reactivex.with_latest_from(*xs), ref_with_latest_from, True),
    "op_with_latest_from": (lambda xs: xs[0].pipe(ops.with_latest_from(*xs[1:])), ref_with_latest_from, True),
    "fork_join": (lambda xs: reactivex.fork_join(*xs), ref_fork_join, True),
    "op_fork_join": (lambda xs: xs[0].pipe(ops.fork_join(*xs[1:])), ref_fork_join, True),
}


def _terms(S):
    import itertools
    return list(itertools.product((0, 1, 2), repeat=S))


def _inst(tier):
    out = []
    for name in COMB:
        if name in ("zip", "combine_latest", "fork_join"):
            # uneven sources: one of three has a second element (all completing / one erroring)
            for ns in ([2, 1, 1], [1, 2, 1], [1, 1, 2]):
                for tm in ([1, 1, 1], [1, 1, 0], [0, 1, 1], [1, 0, 1]):
                    out.append({"op": name, "S": 3, "n": ns, "terms": tm, "G": 2})
        if name in ("zip", "combine_latest", "fork_join", "op_fork_join", "with_latest_from"):
            # a source that stays empty next to sources that emit (an empty source completing *after* another one has emitted)
            for ns in ([1, 0], [0, 1], [2, 0], [0, 2]):
                out.append({"op": name, "S": 2, "n": ns, "terms": None, "G": 3})
            for ns in ([1, 0, 1], [1, 1, 0], [0, 1, 1]):
                for tm in ([1, 1, 1], [0, 1, 0], [1, 1, 0]):
                    out.append({"op": name, "S": 3, "n": ns, "terms": tm, "G": 2})
        for S, n in ((1, 2), (2, 0), (2, 1), (2, 2), (3, 1)) + (((3, 2),) if tier != "quick" else ()):
            if S == 1 and name.startswith("op_"):
                continue
            if S == 3:
                # three symbolic timelines: split on the terminal kinds (27 instances), gaps in [0,2]
                for tm in _terms(3):
                    if tier == "quick" and name not in ("zip", "combine_latest"):
                        continue  # three sources in the quick tier for zip and combine_latest (and amb) only
                    out.append({"op": name, "S": S, "n": n, "terms": list(tm), "G": 2})
            else:
                out.append({"op": name, "S": S, "n": n, "terms": None, "G": 3})
    return out


def events_equal(got, exp, exact_completion):
    ge = [(t, k, p) for t, k, p in got if k != "C"]
    ee = [(t, k, p) for t, k, p in exp if k != "C"]
    if len(ge) != len(ee):
        return False
    for (t1, k1, p1), (t2, k2, p2) in zip(ge, ee):
        if t1 != t2 or k1 != k2:
            return False
        if k1 == "E":
            if p1 is not p2:
                return False
        elif not same(p1, p2):
            return False
    gc = [t for t, k, _ in got if k == "C"]
    ec = [t for t, k, _ in exp if k == "C"]
    if exact_completion:
        return gc == ec and (not gc or got[-1][1] == "C")
    # completion not fixed by the statement (combine_latest): if the rule says "complete by now" it must have completed,
    # never later than that and never before the last expected element
    if ec and (not gc or gc[0] > ec[0]):
        return False
    if gc and ge and gc[0] < ge[-1][0]:
        return False
    return not gc or got[-1][1] == "C"


@harness(instances=_inst, g=I(0, lambda i: i["G"], n=lambda i: sum(i["n"]) if isinstance(i["n"], list) else i["S"] * i["n"]), tg=I(0, 2, n=lambda i: i["S"]),
         term=I(0, 2, n=lambda i: 0 if i["terms"] else i["S"]), timeout=(90, 900))
def h_combine(a, inst):
    if inst["terms"]:
        a.term = inst["terms"]
    sch = make_scheduler()
    log = []
    S, n = inst["S"], inst["n"]
    srcs, raw = build_sources(sch, a, S, n, log)
    build, ref, exact = COMB[inst["op"]]
    res = sch.start(lambda: build(srcs), disposed=260)
    got = rec_tuples(res.messages)
    exp = ref(list(log), S)
    # the tap log also contains notifications delivered after the combinator terminated only if a source is still
    # subscribed: after the output terminated every source must be unsubscribed at that instant
    cover("ran")
    if not events_equal(got, exp, exact):
        return False
    term_t = [t for t, k, _ in got if k in ("C", "E")]
    if term_t:
        for o in raw:
            for s in o.subscriptions:
                if s.unsubscribe > term_t[0]:
                    return False
    return True


# ------------------------------------------------------------------ amb
def _ainst(tier):
    out = [{"op": o, "S": 2, "n": n, "terms": None, "G": 3} for o in ("amb", "op_amb") for n in (0, 1, 2)]
    out += [{"op": "amb", "S": 3, "n": 0, "terms": None, "G": 2}]
    out += [{"op": "amb", "S": 3, "n": 1, "terms": list(tm), "G": 2} for tm in _terms(3)]
    return out


@harness(instances=_ainst, g=I(0, lambda i: i["G"], n=lambda i: sum(i["n"]) if isinstance(i["n"], list) else i["S"] * i["n"]), tg=I(0, 2, n=lambda i: i["S"]),
         term=I(0, 2, n=lambda i: 0 if i["terms"] else i["S"]), timeout=(90, 900))
def h_amb(a, inst):
    if inst["terms"]:
        a.term = inst["terms"]
    """amb mirrors exactly the first source to notify (with any kind of notification) and unsubscribes the others at that moment"""
    sch = make_scheduler()
    log = []
    S, n = inst["S"], inst["n"]
    srcs, raw = build_sources(sch, a, S, n, log)
    obs = reactivex.amb(*srcs) if inst["op"] == "amb" else srcs[0].pipe(ops.amb(srcs[1]))
    res = sch.start(lambda: obs, disposed=260)
    got = rec_tuples(res.messages)
    if not log:
        return got == []
    w = log[0][0]
    t_win = log[0][3]
    exp = []
    for j, k, v, t in log:
        if j == w:
            exp.append((t, k, v))
            if k != "N":
                break
    if len(got) != len(exp):
        return False
    for (t1, k1, p1), (t2, k2, p2) in zip(got, exp):
        if t1 != t2 or k1 != k2 or (k1 == "E" and p1 is not p2) or (k1 == "N" and p1 != p2):
            return False
    # losers: unsubscribed at the winning instant; no loser notification may have been delivered after it
    for j, o in enumerate(raw):
        if j == w:
            continue
        for s in o.subscriptions:
            if s.unsubscribe != t_win:
                return False
    cover("won")
    return True


ENCODED = ["reactivex/observable/zip.py", "reactivex/observable/combinelatest.py", "reactivex/observable/withlatestfrom.py",
           "reactivex/observable/forkjoin.py", "reactivex/operators/_amb.py", "reactivex/observable/amb.py"]
BOUNDS = {"quick": "1..3 hot sources with 1..2 elements each (three sources: 1 element, gaps in [0,2], factory forms), gaps in [0,3] so notifications interleave and coincide, "
                   "terminal none/completed/error per source; factory and operator forms",
          "thorough": "3 sources x 2 elements for every combinator"}
ASSUMES = ["Tick/Span time stub", "same-instant notifications are taken in the order in which the test sources actually delivered them "
           "(taps on the sources), so no tie-break is imposed", "combine_latest's completion instant is not fixed by the statement: "
           "only 'completed by the time all sources completed, not before the last expected tuple' is required"]
MANIFEST = {
    "text": "Bounded symbolic model checking: the timelines of up to three sources are solver variables; the pairing rule of each "
            "combinator is evaluated over the actual delivery log and must equal the recorded output, including completion "
            "(zip, fork_join, with_latest_from, amb) and the release of every source at termination.",
    "note": "<=3 sources, <=2 elements each.",
}
