"""C42 — CatchScheduler routes action exceptions to its handler."""
import os

from reactivex.scheduler import CatchScheduler, VirtualTimeScheduler

from engine.api import I, harness, cover
from engine.lib import Injected
from engine.ticktime import TickVTS

M = 3  # nodes of the recursive scheduling program


def concretize(x, lo, hi):
    for c in range(lo, hi + 1):
        if x == c:
            return c
    return hi


def run_program(sched_for_top, base, nodes, do_raise, log, excs):
    """node i = (kind, d, raises, parent); parent -1 = scheduled from outside on `sched_for_top`, otherwise scheduled from inside
    node parent's action through the scheduler object handed to that action (recursive scheduling)"""
    def submit(s, i):
        kind, d, raises, parent = nodes[i]
        act = mk(i)
        if kind == 0:
            s.schedule(act)
        elif kind == 1:
            s.schedule_relative(d - 1, act)
        else:
            s.schedule_absolute(base.clock + d, act)

    def mk(i):
        def action(scheduler, state):
            log.append((i, base.clock))
            for j in range(len(nodes)):
                if nodes[j][3] == i:
                    submit(scheduler, j)
            if nodes[i][2]:
                if do_raise:
                    raise excs[i]
                log.append(("would-raise", i))
        return action

    for i in range(len(nodes)):
        if nodes[i][3] == -1:
            submit(sched_for_top, i)


def _rinst(tier):
    import itertools
    out = []
    for v in (0, 1):
        for n in ((2, 3) if tier == "quick" else (2, 3, 4)):
            for rz in itertools.product((0, 1), repeat=n):  # which nodes raise: the discrete split
                for k0 in (0, 1, 2):
                    out.append({"verdict": v, "n": n, "rz": list(rz), "k0": k0})
    return out


@harness(instances=_rinst, kind=I(0, 2, n=lambda i: i["n"] - 1), d=I(0, 3, n=lambda i: i["n"]),
         par=I(-1, 2, n=lambda i: i["n"]), timeout=(120, 900))
def h_recursive(a, inst):
    n = inst["n"]
    a.rz = inst["rz"]
    a.kind = [inst["k0"]] + list(a.kind)
    nodes = []
    for i in range(n):
        par = a.par[i]
        if i == 0:
            par = -1
        elif par >= i:
            par = -1
        else:
            par = concretize(par, -1, i - 1)
        nodes.append((concretize(a.kind[i], 0, 2), a.d[i], concretize(a.rz[i], 0, 1), par))
    stock = os.environ.get("VERIF_STOCK") == "1"
    excs = [Injected("n%d" % i) for i in range(n)]
    # reference: the same program on the inner scheduler alone, raising replaced by a marker
    ref_base = VirtualTimeScheduler() if stock else TickVTS()
    ref_log = []
    run_program(ref_base, ref_base, nodes, False, ref_log, excs)
    ref_base.start()
    # under test
    base = VirtualTimeScheduler() if stock else TickVTS()
    handled = []
    verdict = bool(inst["verdict"])

    def handler(ex):
        handled.append(ex)
        return verdict
    cs = CatchScheduler(base, handler)
    log = []
    run_program(cs, base, nodes, True, log, excs)
    escaped = None
    try:
        base.start()
    except Injected as e:
        escaped = e
    ref_runs = [e for e in ref_log if e[0] != "would-raise"]
    ref_raisers = [e[1] for e in ref_log if e[0] == "would-raise"]
    cover("ran")
    if verdict:
        return escaped is None and log == ref_runs and handled == [excs[i] for i in ref_raisers]
    if not ref_raisers:
        return escaped is None and log == ref_runs and handled == []
    first = ref_raisers[0]
    # the run is aborted by the first exception the handler declines
    cut = ref_runs.index(next(e for e in ref_runs if e[0] == first)) + 1
    return escaped is excs[first] and log == ref_runs[:cut] and handled == [excs[first]]


@harness(instances=lambda tier: [{"verdict": v} for v in (0, 1)], p1=I(1, 3), p2=I(1, 3), k1=I(0, 3), k2=I(0, 3), timeout=(120, 900))
def h_two_periodic(a, inst):
    """two periodic actions on ONE CatchScheduler; action i raises at its k_i-th call: the other one keeps its own schedule and its
    own later failure still reaches the handler"""
    stock = os.environ.get("VERIF_STOCK") == "1"
    base = VirtualTimeScheduler() if stock else TickVTS()
    handled = []
    verdict = bool(inst["verdict"])
    cs = CatchScheduler(base, lambda ex: (handled.append(ex), verdict)[1])
    e1, e2 = Injected("p1"), Injected("p2")
    c1, c2 = [], []

    def a1(s):
        c1.append(base.clock)
        if a.k1 and len(c1) == a.k1:
            raise e1
        return s

    def a2(s):
        c2.append(base.clock)
        if a.k2 and len(c2) == a.k2:
            raise e2
        return s

    cs.schedule_periodic(a.p1, a1, 0)
    cs.schedule_periodic(a.p2, a2, 0)
    escaped = None
    try:
        base.advance_to(8)
    except Injected as e:
        escaped = e

    def expected(p, k):
        out, j = [], 1
        while j * p <= 8:
            out.append(j * p)
            if k and j == k:
                break
            j += 1
        return out

    x1, x2 = expected(a.p1, a.k1), expected(a.p2, a.k2)
    if verdict:
        want_h = sorted([(x1[-1], 1)] if a.k1 and len(x1) == a.k1 else []) + ([(x2[-1], 2)] if a.k2 and len(x2) == a.k2 else [])
        want_h.sort()
        got_h = [1 if e is e1 else 2 for e in handled]
        return escaped is None and c1 == x1 and c2 == x2 and sorted(got_h) == sorted(w[1] for w in want_h)
    # verdict False: the first failure escapes and aborts the run; calls before it are as expected
    fails = []
    if a.k1 and len(x1) == a.k1:
        fails.append((x1[-1], 1))
    if a.k2 and len(x2) == a.k2:
        fails.append((x2[-1], 2))
    if not fails:
        return escaped is None and c1 == x1 and c2 == x2
    t0 = min(f[0] for f in fails)
    return escaped is not None and len(handled) == 1 and [t for t in c1 if t < t0] == [t for t in x1 if t < t0] and \
        [t for t in c2 if t < t0] == [t for t in x2 if t < t0]


# ------------------------------------------------------------------ a wrapped scheduler that hands every action its own scheduler
from reactivex.scheduler.scheduler import Scheduler as _Scheduler  # noqa: E402


class _Handed(_Scheduler):
    """what NewThreadScheduler / ThreadPoolScheduler do: the scheduler object passed to an action is private to that action"""

    def __init__(self, base, k, log):
        self.base, self.k, self.log = base, k, log

    @property
    def now(self):
        return self.base.now

    def schedule(self, action, state=None):
        self.log.append(("schedule", self.k))
        return self.base.schedule(action, state)

    def schedule_relative(self, duetime, action, state=None):
        self.log.append(("relative", self.k))
        return self.base.schedule_relative(duetime, action, state)

    def schedule_absolute(self, duetime, action, state=None):
        self.log.append(("absolute", self.k))
        return self.base.schedule_absolute(duetime, action, state)


class _PerAction(VirtualTimeScheduler):
    def __init__(self):
        super().__init__()
        self.handed, self.log = 0, []

    def invoke_action(self, action, state=None):
        self.handed += 1
        ret = action(_Handed(self, self.handed, self.log), state)
        from reactivex import abc as _abc
        from reactivex.disposable import Disposable as _D
        return ret if isinstance(ret, _abc.DisposableBase) else _D()


@harness(instances=lambda tier: [{"n": n} for n in (2, 3)], rel=I(0, 1, n=lambda i: i["n"]), boom=I(0, 3), timeout=(60, 600), stock=False)
def h_handed_scheduler(a, inst):
    """n outer actions on a CatchScheduler over a scheduler that hands each action a scheduler of its own; every outer action
    schedules an inner one through the scheduler it was given: that request must reach the scheduler handed to *this* outer action
    (not the one handed to an earlier action), and an exception of the inner action still reaches the handler"""
    base = _PerAction()
    handled = []
    cs = CatchScheduler(base, lambda ex: (handled.append(ex), True)[1])
    n = inst["n"]
    ran = []
    err = Injected("inner")

    def outer(i):
        def action(scheduler, state):
            def inner(sc, st):
                ran.append(i)
                if a.boom == i + 1:
                    raise err
            if a.rel[i]:
                scheduler.schedule_relative(1.0, inner)
            else:
                scheduler.schedule(inner)
        return action

    for i in range(n):
        cs.schedule_relative(float(i + 1) * 10.0, outer(i))
    base.start()
    cover("ran")
    # outer action i is the (something)-th invocation; its recursive request carries the index handed to that very invocation:
    # requests are logged in the order the outer actions ran, each with a distinct, increasing hand-out index
    ks = [k for _, k in base.log]
    if len(ks) != n or ks != sorted(set(ks)):
        return False
    if sorted(ran) != list(range(n)):
        return False
    return handled == ([err] if 1 <= a.boom <= n else [])


ENCODED = ["reactivex/scheduler/catchscheduler.py", "reactivex/scheduler/virtualtimescheduler.py", "reactivex/scheduler/periodicscheduler.py"]
BOUNDS = {"quick": "recursive scheduling programs of 2..3 nodes (each: schedule / schedule_relative(-1..2) / schedule_absolute(now+0..3), "
                   "raises or not, scheduled from outside or from inside an earlier node through the scheduler it was handed), handler "
                   "verdict True/False; two periodic actions (periods 1..3) on one CatchScheduler each raising at its k-th call (k in 0..3)",
          "thorough": "programs of 4 nodes"}
ASSUMES = ["Tick/Span time stub on a plain VirtualTimeScheduler as the inner scheduler",
           "differential reference: the same program on the inner scheduler alone with raising replaced by a marker"]
MANIFEST = {
    "text": "Bounded symbolic model checking of CatchScheduler (_wrap, recursive wrapper, schedule*, schedule_periodic): the program "
            "shape, delays (zero and negative included), raising nodes and the handler verdict are solver variables; the handler must be "
            "called exactly once per raised exception, verdict True must keep start() from raising and leave order and clock readings "
            "as on the inner scheduler alone, verdict False must propagate.",
    "note": "<=3 nodes (quick) / 4.",
}
