"""The operator catalog shared by the pipeline properties (C01-C04, C08, C09, C39, C44).

One entry per operator function exported by reactivex.operators (and the creation functions that combine sources):
how to instantiate it from a `Ctx` (symbolic parameters, fault-injecting callbacks, extra sources).
`check_complete()` fails the run (harness error) when /repo exports an operator that is neither catalogued nor
excluded with a reason, so a new operator cannot silently fall outside the pipeline properties.
"""
import reactivex
from reactivex import operators as ops
from reactivex.subject import Subject

from engine.lib import Injected, messages, times_from_gaps


class Box:
    """opaque always-truthy wrapper used by the parametricity oracle of C08"""

    __slots__ = ("v",)

    def __init__(self, v):
        self.v = v

    def __eq__(self, o):
        return isinstance(o, Box) and type(self.v) is type(o.v) and self.v == o.v

    def __hash__(self):
        try:
            return hash(("Box", self.v))
        except TypeError:
            return hash(("Box", repr(self.v)))

    def __repr__(self):
        return "Box(%r)" % (self.v,)


def unbox(x):
    return x.v if isinstance(x, Box) else x


class Ctx:
    """Everything an entry needs to build its operator for one run."""

    def __init__(self, sch, p=1, m=2, k=0, others=None, inners=None, fault=None):
        self.sch, self.p, self.m, self.k = sch, p, m, k
        self.calls = 0
        self.fired = False
        self.fault = fault or Injected("callback")
        self._others = others or []  # list of observables available as second/third sources
        self._inners = inners or []  # list of cold observables handed out by inner-source factories
        self.used_others = 0
        self.inner_recs = []  # recorders attached to emitted windows / groups
        self.cb_log = []  # sequence numbers of user-callback invocations (for C03)
        self.cb_times = []  # scheduler clock at each user-callback invocation
        self.seq = [0]

    # -- fault injection and call accounting -------------------------------------------------
    def tick(self):
        self.calls += 1
        self.seq[0] += 1
        self.cb_log.append(self.seq[0])
        self.cb_times.append(self.sch.clock)
        if self.k and self.calls == self.k:
            self.fired = True
            raise self.fault

    # -- callbacks (all count and may raise at the k-th user-callback invocation) -----------
    def pred(self):
        def f(x):
            self.tick()
            return unbox(x) >= self.p
        return f

    def pred_i(self):
        def f(x, i):
            self.tick()
            return (unbox(x) + i) % self.m == 0
        return f

    def lt(self):
        def f(x):
            self.tick()
            return unbox(x) < self.p
        return f

    def lt_i(self):
        def f(x, i):
            self.tick()
            return unbox(x) + i < self.p
        return f

    def mapper(self):
        def f(x):
            self.tick()
            return x
        return f

    def mapper_i(self):
        def f(x, i):
            self.tick()
            return x
        return f

    def key(self):
        def f(x):
            self.tick()
            return unbox(x) % self.m
        return f

    def comparer(self):
        def f(a, b):
            self.tick()
            return (unbox(a) - unbox(b)) % self.m == 0
        return f

    def subcomparer(self):
        def f(a, b):
            self.tick()
            return unbox(a) - unbox(b)
        return f

    def acc(self):
        def f(a, x):
            self.tick()
            return a + unbox(x)
        return f

    def action(self):
        def f(*a):
            self.tick()
        return f

    def find_pred(self):
        def f(x, i, s):
            self.tick()
            return unbox(x) + i >= self.p
        return f

    def cond(self):
        """condition for while_do / do_while: true for the first p calls"""
        n = [0]

        def f(_):
            self.tick()
            n[0] += 1
            return n[0] <= self.p
        return f

    # -- extra sources -----------------------------------------------------------------------
    def other(self):
        o = self._others[self.used_others % len(self._others)]
        self.used_others += 1
        return o

    def inner(self):
        """pure factory x -> inner observable, chosen by the parity of the element (pure: C04 / C44 re-run it)"""
        def f(x, *_):
            self.tick()
            v = unbox(x)
            if isinstance(v, tuple):
                v = unbox(v[0])
            if not isinstance(v, int):
                v = 0
            return self._inners[v % len(self._inners)]
        return f

    def inner0(self):
        """factory () -> observable (closing mappers): the two prepared inners, then never() (bounds the number of windows)"""
        n = [0]

        def f(*_):
            self.tick()
            o = self._inners[n[0]] if n[0] < len(self._inners) else reactivex.never()
            n[0] += 1
            return o
        return f

    @property
    def cp(self):
        """p realised by branching: operators that build real timedeltas from their arguments get concrete numbers"""
        for c in range(0, 3):
            if self.p == c:
                return c
        return 2

    @property
    def cm(self):
        for c in range(1, 3):
            if self.m == c:
                return c
        return 2

    def rec_inner(self, make_recorder):
        """do_action callback subscribing a recorder to every emitted inner observable (windows, groups)"""
        def f(w):
            r = make_recorder()
            self.inner_recs.append(r)
            r.subscribe_to(w)
        return f


def _t(n):
    return n  # ticks are passed as plain ints to time-based operators (TickScheduler converts)


# name -> dict(build=lambda c: operator, tags=set)
# tags: cb (takes a user callback), other (second source), inner (inner-source factory), time (time-based),
#       obs (emits observables), multi (multicasting / connectable), agnostic (value-agnostic: C08 parametricity),
#       inspect (value-inspecting), elem=<kind> special element shape, nocold (not meaningful for C04)
E = {}


def entry(name, build, *tags, **kw):
    E[name] = dict(build=build, tags=set(tags), **kw)


def obs_entry(name, raw, *tags, **kw):
    """operators emitting observables: `raw` is the operator itself, `build` flattens it with merge_all so that every
    emitted window / group is subscribed"""
    E[name] = dict(build=lambda c: reactivex.compose(raw(c), ops.merge_all()), raw=raw, tags=set(tags) | {"obs"}, **kw)


# element-wise
entry("map", lambda c: ops.map(c.mapper()), "cb", "agnostic")
entry("map_indexed", lambda c: ops.map_indexed(c.mapper_i()), "cb", "agnostic")
entry("filter", lambda c: ops.filter(c.pred()), "cb", "inspect")
entry("filter_indexed", lambda c: ops.filter_indexed(c.pred_i()), "cb", "inspect")
entry("take", lambda c: ops.take(c.p), "agnostic")
entry("skip", lambda c: ops.skip(c.p), "agnostic")
entry("take_while", lambda c: ops.take_while(c.lt()), "cb", "inspect")
entry("take_while_indexed", lambda c: ops.take_while_indexed(c.lt_i()), "cb", "inspect")
entry("skip_while", lambda c: ops.skip_while(c.lt()), "cb", "inspect")
entry("skip_while_indexed", lambda c: ops.skip_while_indexed(c.lt_i()), "cb", "inspect")
entry("distinct", lambda c: ops.distinct(c.key()), "cb", "inspect")
entry("distinct_cmp", lambda c: ops.distinct(None, c.comparer()), "cb", "inspect")
entry("distinct_until_changed", lambda c: ops.distinct_until_changed(c.key()), "cb", "inspect")
entry("distinct_until_changed_cmp", lambda c: ops.distinct_until_changed(None, c.comparer()), "cb", "inspect")
entry("pairwise", lambda c: ops.pairwise(), "agnostic")
entry("start_with", lambda c: ops.start_with(7, 8), "agnostic")
entry("default_if_empty", lambda c: ops.default_if_empty(9), "agnostic")
entry("ignore_elements", lambda c: ops.ignore_elements(), "agnostic")
entry("take_last", lambda c: ops.take_last(c.cp), "agnostic")  # concrete count: buffers may be C containers (deque(maxlen=))
entry("skip_last", lambda c: ops.skip_last(c.cp), "agnostic")
entry("take_last_buffer", lambda c: ops.take_last_buffer(c.cp), "agnostic")
entry("element_at", lambda c: ops.element_at(c.p), "agnostic")
entry("element_at_or_default", lambda c: ops.element_at_or_default(c.p, 9), "agnostic")
entry("find", lambda c: ops.find(c.find_pred()), "cb", "inspect")
entry("find_index", lambda c: ops.find_index(c.find_pred()), "cb", "inspect")
entry("starmap", lambda c: ops.starmap(lambda a, b: (c.tick(), a)[1]), "cb", "inspect", elem="pair")
entry("starmap_indexed", lambda c: ops.starmap_indexed(lambda a, i: (c.tick(), a)[1]), "cb", "inspect", elem="pair")
entry("pluck", lambda c: ops.pluck("k"), "inspect", elem="dict")
entry("pluck_attr", lambda c: ops.pluck_attr("k"), "inspect", elem="attr")
entry("materialize", lambda c: ops.materialize(), "agnostic")
entry("dematerialize", lambda c: ops.dematerialize(), "inspect", elem="note")
entry("as_observable", lambda c: ops.as_observable(), "agnostic")
entry("slice", lambda c: ops.slice(c.p - 1, None, None), "agnostic")
entry("slice_step", lambda c: ops.slice(None, None, c.cm), "agnostic")
entry("timestamp", lambda c: ops.timestamp(), "agnostic", "time")
entry("time_interval", lambda c: ops.time_interval(), "agnostic", "time")
# aggregates
entry("reduce", lambda c: ops.reduce(c.acc(), 0), "cb", "inspect")
entry("scan", lambda c: ops.scan(c.acc(), 0), "cb", "inspect")
entry("count", lambda c: ops.count(c.pred()), "cb", "inspect")
entry("sum", lambda c: ops.sum(lambda x: (c.tick(), unbox(x))[1]), "cb", "inspect")
entry("average", lambda c: ops.average(lambda x: (c.tick(), unbox(x))[1]), "cb", "inspect")
entry("min", lambda c: ops.min(c.subcomparer()), "cb", "inspect")
entry("max", lambda c: ops.max(c.subcomparer()), "cb", "inspect")
entry("min_by", lambda c: ops.min_by(c.key()), "cb", "inspect")
entry("max_by", lambda c: ops.max_by(c.key()), "cb", "inspect")
entry("to_list", lambda c: ops.to_list(), "agnostic")
entry("to_iterable", lambda c: ops.to_iterable(), "agnostic")
entry("to_set", lambda c: ops.to_set(), "inspect")
entry("to_dict", lambda c: ops.to_dict(c.key(), c.mapper()), "cb", "inspect")
entry("first", lambda c: ops.first(c.pred()), "cb", "inspect")
entry("first_or_default", lambda c: ops.first_or_default(c.pred(), 9), "cb", "inspect")
entry("last", lambda c: ops.last(c.pred()), "cb", "inspect")
entry("last_or_default", lambda c: ops.last_or_default(9, c.pred()), "cb", "inspect")
entry("single", lambda c: ops.single(c.pred()), "cb", "inspect")
entry("single_or_default", lambda c: ops.single_or_default(c.pred(), 9), "cb", "inspect")
entry("all", lambda c: ops.all(c.pred()), "cb", "inspect")
entry("some", lambda c: ops.some(c.pred()), "cb", "inspect")
entry("contains", lambda c: ops.contains(c.p, c.comparer()), "cb", "inspect")
entry("is_empty", lambda c: ops.is_empty(), "agnostic")
entry("sequence_equal", lambda c: ops.sequence_equal(c.other(), c.comparer()), "cb", "other", "inspect")
# side effects
entry("do_action", lambda c: ops.do_action(c.action(), c.action(), c.action()), "cb", "agnostic")
entry("tap", lambda c: ops.do_action(c.action()), "cb", "agnostic")
entry("finally_action", lambda c: ops.finally_action(lambda: None), "agnostic")
# sequential composition
entry("concat", lambda c: ops.concat(c.other()), "other", "agnostic")
entry("catch", lambda c: ops.catch(c.other()), "other", "agnostic")
entry("catch_fn", lambda c: ops.catch(lambda e, s: (c.tick(), c.other())[1]), "cb", "other", "agnostic")
entry("on_error_resume_next", lambda c: ops.on_error_resume_next(c.other()), "other", "agnostic")
entry("repeat", lambda c: ops.repeat(c.p), "agnostic", "resub")
entry("retry", lambda c: ops.retry(c.p), "agnostic", "resub")
entry("while_do", lambda c: ops.while_do(c.cond()), "cb", "agnostic", "resub", "nocold")
entry("do_while", lambda c: ops.do_while(c.cond()), "cb", "agnostic", "resub", "nocold")
entry("while_do_pure", lambda c: reactivex.compose(ops.while_do(lambda _: (c.tick(), True)[1]), ops.take(c.p + 2)), "cb", "agnostic", "resub")
entry("do_while_pure", lambda c: reactivex.compose(ops.do_while(lambda _: (c.tick(), True)[1]), ops.take(c.p + 2)), "cb", "agnostic", "resub")
# merging / switching
entry("merge", lambda c: ops.merge(c.other()), "other", "agnostic")
entry("merge_max", lambda c: reactivex.compose(ops.map(c.inner()), ops.merge(max_concurrent=c.m)), "cb", "inner", "agnostic")
entry("merge_all", lambda c: reactivex.compose(ops.map(c.inner()), ops.merge_all()), "cb", "inner", "agnostic")
entry("flat_map", lambda c: ops.flat_map(c.inner()), "cb", "inner", "agnostic")
entry("flat_map_indexed", lambda c: ops.flat_map_indexed(c.inner()), "cb", "inner", "agnostic")
entry("concat_map", lambda c: ops.concat_map(c.inner()), "cb", "inner", "agnostic")
entry("switch_latest", lambda c: reactivex.compose(ops.map(c.inner()), ops.switch_latest()), "cb", "inner", "agnostic")
entry("switch_map", lambda c: ops.switch_map(c.inner()), "cb", "inner", "agnostic")
entry("switch_map_indexed", lambda c: ops.switch_map_indexed(c.inner()), "cb", "inner", "agnostic")
entry("flat_map_latest", lambda c: ops.flat_map_latest(c.inner()), "cb", "inner", "agnostic")
entry("exclusive", lambda c: reactivex.compose(ops.map(c.inner()), ops.exclusive()), "cb", "inner", "agnostic")
entry("expand", lambda c: reactivex.compose(ops.expand(lambda x: (c.tick(), reactivex.empty())[1])), "cb", "agnostic")
# multi-source
entry("zip", lambda c: ops.zip(c.other()), "other", "agnostic")
entry("zip_with_iterable", lambda c: ops.zip_with_iterable([7, 8]), "agnostic")
entry("zip_with_list", lambda c: ops.zip_with_list([7, 8]), "agnostic")
entry("combine_latest", lambda c: ops.combine_latest(c.other()), "other", "agnostic")
entry("with_latest_from", lambda c: ops.with_latest_from(c.other()), "other", "agnostic")
entry("fork_join", lambda c: ops.fork_join(c.other()), "other", "agnostic")
entry("amb", lambda c: ops.amb(c.other()), "other", "agnostic")
entry("take_until", lambda c: ops.take_until(c.other()), "other", "agnostic")
entry("skip_until", lambda c: ops.skip_until(c.other()), "other", "agnostic")
entry("sample_obs", lambda c: ops.sample(c.other()), "other", "agnostic")
entry("join", lambda c: ops.join(c.other(), c.inner(), c.inner()), "cb", "other", "inner", "agnostic")
entry("group_join", lambda c: reactivex.compose(ops.group_join(c.other(), c.inner(), c.inner()),
                                               ops.map(lambda t: t[1]), ops.merge_all()), "cb", "other", "inner", "agnostic")
# time
entry("delay", lambda c: ops.delay(_t(c.p)), "time", "agnostic")
entry("delay_subscription", lambda c: ops.delay_subscription(_t(c.p)), "time", "agnostic")
entry("delay_with_mapper", lambda c: ops.delay_with_mapper(c.inner()), "cb", "inner", "time", "agnostic")
entry("debounce", lambda c: ops.debounce(_t(c.p + 1)), "time", "agnostic")
entry("throttle_with_timeout", lambda c: ops.throttle_with_timeout(_t(c.p + 1)), "time", "agnostic")
entry("throttle_with_mapper", lambda c: ops.throttle_with_mapper(c.inner()), "cb", "inner", "time", "agnostic")
entry("throttle_first", lambda c: ops.throttle_first(_t(c.p + 1)), "time", "agnostic")
entry("sample", lambda c: ops.sample(_t(c.p + 1)), "time", "agnostic")
entry("timeout", lambda c: ops.timeout(_t(c.p + 1)), "time", "agnostic")
entry("timeout_other", lambda c: ops.timeout(_t(c.p + 1), c.other()), "time", "other", "agnostic")
entry("timeout_with_mapper", lambda c: ops.timeout_with_mapper(None, c.inner()), "cb", "inner", "time", "agnostic")
entry("take_with_time", lambda c: ops.take_with_time(_t(c.p + 1)), "time", "agnostic")
entry("skip_with_time", lambda c: ops.skip_with_time(_t(c.p + 1)), "time", "agnostic")
entry("take_last_with_time", lambda c: ops.take_last_with_time(_t(c.p + 1)), "time", "agnostic")
entry("skip_last_with_time", lambda c: ops.skip_last_with_time(_t(c.p + 1)), "time", "agnostic")
entry("take_until_with_time", lambda c: ops.take_until_with_time(_t(c.p + 1)), "time", "agnostic")
entry("skip_until_with_time", lambda c: ops.skip_until_with_time(_t(c.p + 1)), "time", "agnostic")
entry("observe_on", lambda c: ops.observe_on(c.sch), "time", "agnostic")
entry("subscribe_on", lambda c: ops.subscribe_on(c.sch), "time", "agnostic")
# windows / buffers / groups (windows and groups are flattened so that every emitted inner is subscribed)
entry("buffer", lambda c: ops.buffer(c.other()), "other", "agnostic")
entry("buffer_when", lambda c: ops.buffer_when(c.inner0()), "cb", "inner", "agnostic", "nocold")
entry("buffer_toggle", lambda c: ops.buffer_toggle(c.other(), c.inner()), "cb", "other", "inner", "agnostic")
entry("buffer_with_count", lambda c: ops.buffer_with_count(c.m, c.p + 1), "agnostic")
entry("buffer_with_time", lambda c: ops.buffer_with_time(_t(c.cm), _t(c.cp + 1)), "time", "agnostic")
entry("buffer_with_time_or_count", lambda c: ops.buffer_with_time_or_count(_t(c.cp + 1), c.m), "time", "agnostic")
obs_entry("window", lambda c: ops.window(c.other()), "other", "agnostic")
obs_entry("window_when", lambda c: ops.window_when(c.inner0()), "cb", "inner", "agnostic", "nocold")
obs_entry("window_toggle", lambda c: ops.window_toggle(c.other(), c.inner()), "cb", "other", "inner", "agnostic")
obs_entry("window_with_count", lambda c: ops.window_with_count(c.m, c.p + 1), "agnostic")
obs_entry("window_with_time", lambda c: ops.window_with_time(_t(c.cm), _t(c.cp + 1)), "time", "agnostic")
obs_entry("window_with_time_or_count", lambda c: ops.window_with_time_or_count(_t(c.cp + 1), c.m), "time", "agnostic")
obs_entry("group_by", lambda c: ops.group_by(c.key(), c.mapper()), "cb", "inspect")
obs_entry("group_by_until", lambda c: ops.group_by_until(c.key(), c.mapper(), c.inner()), "cb", "inner", "inspect")
entry("partition", lambda c: (lambda s: reactivex.merge(*ops.partition(c.pred())(s))), "cb", "obs", "inspect", "multi")
entry("partition_indexed", lambda c: (lambda s: reactivex.merge(*ops.partition_indexed(c.pred_i())(s))), "cb", "obs", "inspect", "multi")
# multicasting
entry("share", lambda c: ops.share(), "multi", "agnostic")
entry("publish_refcount", lambda c: reactivex.compose(ops.publish(), ops.ref_count()), "multi", "agnostic")
entry("publish_mapper", lambda c: ops.publish(lambda s: (c.tick(), s)[1]), "cb", "multi", "agnostic")
entry("replay_refcount", lambda c: reactivex.compose(ops.replay(buffer_size=c.m, scheduler=c.sch), ops.ref_count()), "multi", "agnostic")
entry("replay_mapper", lambda c: ops.replay(c.m, None, mapper=lambda s: (c.tick(), s)[1], scheduler=c.sch), "cb", "multi", "agnostic")
entry("publish_value_refcount", lambda c: reactivex.compose(ops.publish_value(9), ops.ref_count()), "multi", "agnostic")
entry("multicast_mapper", lambda c: ops.multicast(subject_factory=lambda s: Subject(), mapper=lambda s: (c.tick(), s)[1]), "cb", "multi", "agnostic")

EXCLUDED = {
    "do": "alias module-level name of do_action (same function object family); do_action is catalogued",
    "multicast": "catalogued as multicast_mapper (the connectable form is covered by C24)",
    "publish": "catalogued as publish_refcount / publish_mapper (connectable form: C24)",
    "publish_value": "catalogued as publish_value_refcount",
    "replay": "catalogued as replay_refcount / replay_mapper",
    "ref_count": "catalogued together with publish / replay / publish_value",
    "single_or_default_async": "internal helper behind single*",
    "to_future": "sink, subject of C41",
    "to_marbles": "sink, subject of C38",
    "throttle_with_timeout": None,
}


def names():
    return list(E)


def check_complete():
    """every exported operator is catalogued (possibly under a variant name) or excluded with a reason"""
    missing = []
    for n in ops.__all__:
        if n in E or any(k == n or k.startswith(n + "_") for k in E):
            continue
        if EXCLUDED.get(n):
            continue
        missing.append(n)
    return missing


def element(kind, v):
    """shape a raw value for entries that need structured elements"""
    if kind == "pair":
        return (v, 0)
    if kind == "dict":
        return {"k": v}
    if kind == "attr":
        class O:
            pass
        o = O()
        o.k = v
        return o
    if kind == "note":
        from reactivex.notification import OnNext
        return OnNext(v)
    return v
