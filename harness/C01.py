"""C01 — every subscriber sees a well-formed notification sequence."""
import reactivex
from reactivex import Observable
from reactivex import operators as ops
from reactivex.disposable import Disposable
from reactivex.subject import Subject

from engine.api import I, harness, cover
from engine.lib import Injected, Recorder, grammar_ok
from harness import pipe
from harness.catalog import E


def _build_with_inner_recorders(c):
    """for operators emitting observables: subscribe a recorder to every emitted inner *and* flatten"""
    raise NotImplementedError


@harness(instances=lambda tier: pipe.instances(tier, 2, 3, nmin=1, lean=True), timeout=(90, 900), **pipe.params(with_k=True, extra=True))
def h_grammar(a, inst):
    ent = E[inst["op"]]
    if "raw" in ent:
        recs = []

        def op(c):
            def attach(w):
                r = Recorder(c.sch)
                recs.append(r)
                r.subscribe_to(w)
            return reactivex.compose(ent["raw"](c), ops.do_action(attach), ops.merge_all())
        r = pipe.run(a, inst, k=a.k, extra=a.extra, op=op)
        for rec in recs:
            if not grammar_ok(rec.kinds()):
                return False
    else:
        r = pipe.run(a, inst, k=a.k, extra=a.extra)
    if a.extra:
        cover("nonconforming")
    return grammar_ok([k for _, k, _ in r.events])


# ------------------------------------------------------------------ direct: non-conforming custom sources
# the source is Observable(subscribe) pushing a solver-chosen sequence of notification kinds synchronously into whatever
# observer it is given, ignoring the grammar (emits after its terminal, terminates twice); the subscriber's own on_next may raise
PIPES = {
    "plain": lambda: [],
    "map": lambda: [ops.map(lambda x: x)],
    "filter": lambda: [ops.filter(lambda x: True)],
    "map_take": lambda: [ops.map(lambda x: x), ops.take(2)],
    "merge_never": lambda: [ops.merge(reactivex.never())],
    "share": lambda: [ops.share()],
    "scan": lambda: [ops.scan(lambda a, x: a + x, 0)],
    "start_with": lambda: [ops.start_with(0)],
    "catch": lambda: [ops.catch(reactivex.of(9))],
    "concat": lambda: [ops.concat(reactivex.of(9))],
    "materialize_dematerialize": lambda: [ops.materialize(), ops.dematerialize()],
    "observer_object": lambda: [],
}


def _dinst(tier):
    L = 4 if tier == "quick" else 5
    return [{"pipe": p, "L": L} for p in PIPES]


@harness(instances=_dinst, kinds=I(0, 2, n=lambda i: i["L"]), j=I(0, lambda i: i["L"]), jt=I(0, 2), sc=I(0, 2), timeout=(150, 900), stock=False)
def h_direct(a, inst):
    """kinds: the notification kinds the source pushes; the first `s` of them synchronously inside its subscribe function, where an
    exception raised by the observer escapes the subscribe function (as with BehaviorSubject replaying its value), the others
    later, after subscribe() returned (exceptions from the observer are swallowed by the emitter, which keeps emitting).  The
    subscriber's on_next raises at its j-th call; with jt == 1 its on_error / on_completed handlers raise as well; with jt == 2 the
    first terminal handler re-entrantly makes the (still live, non-conforming) source push its remaining notifications while the
    handler is still running"""
    err = Injected("src")
    boom = Injected("subscriber")
    L = inst["L"]
    s = 0 if a.sc == 0 else (1 if a.sc == 1 else L)
    saved = []
    pending = [k for k in a.kinds]

    def push(observer, k):
        if k == 0:
            observer.on_next(1)
        elif k == 1:
            observer.on_completed()
        else:
            observer.on_error(err)

    def subscribe(observer, scheduler=None):
        saved.append(observer)
        for _ in range(s):
            if not pending:
                break
            push(observer, pending.pop(0))  # an exception from downstream escapes subscribe()
        return Disposable()

    log = []
    cnt = [0]

    def on_next(v):
        log.append("N")
        cnt[0] += 1
        if a.j and cnt[0] == a.j:
            raise boom

    reentered = [False]

    def reenter():
        if a.jt == 2 and not reentered[0]:
            reentered[0] = True
            while pending:
                k = pending.pop(0)
                for observer in list(saved):
                    try:
                        push(observer, k)
                    except Injected:
                        pass

    def on_error(e):
        log.append("E")
        if a.jt == 1:
            raise boom
        reenter()

    def on_completed():
        log.append("C")
        if a.jt == 1:
            raise boom
        reenter()

    src = Observable(subscribe).pipe(*PIPES[inst["pipe"]]())
    try:
        if inst["pipe"] == "observer_object":
            from reactivex.observer import Observer
            src.subscribe(Observer(on_next, on_error, on_completed))
        else:
            src.subscribe(on_next, on_error, on_completed)
    except Injected:
        pass  # the subscriber's own exception may surface at its subscribe() call
    while pending:
        k = pending.pop(0)
        for observer in list(saved):
            try:
                push(observer, k)
            except Injected:
                pass
    return grammar_ok(log)


ENCODED = ["reactivex/observable/observable.py", "reactivex/observer/autodetachobserver.py", "reactivex/observer/observer.py",
           "reactivex/operators/__init__.py", "reactivex/subject/subject.py"]
BOUNDS = {"quick": "depth-1 pipelines over every catalogued operator (emitted windows/groups each get their own recorder), main "
                   "source N in 1..2 plus 0-1 non-conforming extra notification after the terminal one, fault position k in [0,N+2]; "
                   "direct: every sequence of 4 notification kinds pushed by a non-conforming Observable(subscribe) through 12 "
                   "short pipelines (none / the first / all of them synchronously inside subscribe(), where the subscriber's exception "
                   "escapes the subscribe function), with the subscriber's own on_next raising at call j and its on_error / "
                   "on_completed handlers raising or not",
          "thorough": "N in 1..3; direct sequences of length 5"}
ASSUMES = ["Tick/Span time stub for the catalog instances", "depth > 2 pipelines and real-time schedulers are outside (C43 covers threads)"]
MANIFEST = {
    "text": "Bounded symbolic model checking: timelines, non-conforming tails, fault positions (catalog instances) and whole "
            "notification-kind sequences (direct instances) are solver variables; every recorder (outer subscriber and each "
            "emitted window/group) must see on_next* (on_error|on_completed)? and nothing afterwards.",
    "note": "Depth 1 (+ the fixed depth-2 pipes of the direct harness); bounds in evidence.",
}
