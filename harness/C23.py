"""C23 — an AsyncSubject delivers only the final value."""
from reactivex.subject import AsyncSubject

from engine.api import I, harness
from harness.subjects import NOPS, RefSubject, equal_snap, history_instances, history_ops, hlen, run_history

def _inst(tier):
    return history_instances(tier, quick_len=5)


@harness(instances=_inst, h=I(0, NOPS - 1, n=hlen), timeout=(90, 900))
def h_async(a, inst):
    ops = history_ops(inst, a.h)
    real, ref = run_history(AsyncSubject, lambda: RefSubject("async"), ops)
    return equal_snap(real, ref)


EXTRA_MODULES = ["harness.C23gt"]  # threads: a subscriber racing the producer (gate threads)
ENCODED = ["reactivex/subject/asyncsubject.py", "reactivex/subject/subject.py", "reactivex/subject/innersubscription.py",
           "reactivex/observer/autodetachobserver.py", "reactivex/observable/observable.py"]
BOUNDS = {"quick": "every call history of length 5 over the 12-op alphabet of C20; threads (GT): a subscriber thread (subscribe, or subscribe and unsubscribe at once) racing a producer thread over 4 sequences, 2 ordered preemptions at instruction-level yield points of the subject modules",
          "thorough": "length 6"}
ASSUMES = ["threads: gate-aware RLock shims; the late subscriber must receive one of the sequential outcomes (a prefix of one when it unsubscribes), the early subscriber everything, nothing may raise", "reference subject as in C20 plus: on_next only stores; completion delivers the last value (if any) then on_completed to each current subscriber and to each later one; error delivers only the error",
           "an in-callback unsubscribe-self issued while the subscription is still being established is a no-op (no handle yet)"]
MANIFEST = {
    "engine": "XH+GT",
    "text": "Bounded symbolic model checking over call histories (as C20) on the real AsyncSubject against a reference model; "
            "nothing before termination, last value then completion, error only.",
    "note": "History length 5 / 6; 3 observers.",
}
