"""C14 — early termination cancels synchronous infinite sources."""
import itertools

import reactivex
from reactivex import operators as ops
from reactivex.scheduler import CurrentThreadScheduler, ImmediateScheduler

from engine.api import I, harness, cover, known


class OverBudget(Exception):
    pass


class Meter:
    """counts how many elements the never-ending source produced; beyond the work budget it makes the run fail instead of
    looping forever (a livelock becomes a failed assertion, not a hang)"""

    def __init__(self, cap):
        self.n, self.cap, self.over = 0, cap, False

    def tap(self, x):
        self.n += 1
        if self.n > self.cap:
            self.over = True
            raise OverBudget()
        return x


def infinite_sources(meter):
    def gen():
        i = 0
        while True:
            meter.tap(i)
            yield i
            i += 1
    return {
        "from_iterable": lambda: reactivex.from_iterable(gen()),
        "generate": lambda: reactivex.generate(0, lambda x: True, lambda x: x + 1).pipe(ops.map(meter.tap)),
        "range": lambda: reactivex.range(0, 10 ** 9).pipe(ops.map(meter.tap)),
        "repeat_value": lambda: reactivex.repeat_value(1).pipe(ops.map(meter.tap)),
        "repeat": lambda: reactivex.of(1, 2).pipe(ops.repeat(), ops.map(meter.tap)),
    }


SHAPES = [
    ("direct", lambda s: s),
    ("map", lambda s: s.pipe(ops.map(lambda x: x))),
    ("filter", lambda s: s.pipe(ops.filter(lambda x: True))),
    ("merge_never", lambda s: s.pipe(ops.merge(reactivex.never()))),
    ("flat_map_inner", lambda s: reactivex.of(0).pipe(ops.flat_map(lambda _: s))),
    ("concat_after_of", lambda s: reactivex.concat(reactivex.of(0), s)),
    ("switch_map_inner", lambda s: reactivex.of(0).pipe(ops.switch_map(lambda _: s))),
    ("share", lambda s: s.pipe(ops.share())),
    ("amb_never", lambda s: s.pipe(ops.amb(reactivex.never()))),
    ("never_amb", lambda s: reactivex.never().pipe(ops.amb(s))),
    ("with_latest_from", lambda s: s.pipe(ops.with_latest_from(reactivex.of(1)))),
    ("combine_latest", lambda s: reactivex.of(1).pipe(ops.combine_latest(s))),  # (the finite source first: it must have a value)
]
TERMS = [
    ("take", lambda n: ops.take(n)),
    ("first", lambda n: ops.first()),
    ("take_while", lambda n: ops.take_while((lambda c: lambda x: (c.append(1), len(c) <= n)[1])([]))),  # true for the first n elements
    ("element_at", lambda n: ops.element_at(n)),
    ("first_or_default", lambda n: ops.first_or_default()),
    ("take_1_then_map", lambda n: reactivex.compose(ops.take(1), ops.map(lambda x: x))),
]
CONFIGS = {
    "default": lambda: None,
    "current_thread_singleton": lambda: CurrentThreadScheduler.singleton(),
    "immediate": lambda: ImmediateScheduler(),
}
# recorded finding (known_findings.json): with an explicit ImmediateScheduler the synchronous producers run to the end inside
# subscribe() before the subscription handle exists, so early termination cannot cancel them
IMMEDIATE_FINDING = "C14-immediate-scheduler-never-cancels"


def concretize(x, n):
    for c in range(n):
        if x == c:
            return c
    return n - 1


@harness(instances=lambda tier: [{"src": s, "cfg": c} for s in ("from_iterable", "generate", "range", "repeat_value", "repeat") for c in CONFIGS],
         shape=I(0, len(SHAPES) - 1), term=I(0, len(TERMS) - 1), n=I(0, 4), timeout=(120, 900), stock=False)
def h_cancel(a, inst):
    n = concretize(a.n, 5)
    cap = 4 * (n + 2)
    meter = Meter(cap)
    src = infinite_sources(meter)[inst["src"]]()
    sname, shape = SHAPES[concretize(a.shape, len(SHAPES))]
    tname, term = TERMS[concretize(a.term, len(TERMS))]
    if inst["cfg"] == "immediate" and known(IMMEDIATE_FINDING, True):
        return True
    obs = shape(src).pipe(term(n))
    got, done = [], []
    try:
        obs.subscribe(got.append, lambda e: done.append(("E", e)), lambda: done.append(("C",)), scheduler=CONFIGS[inst["cfg"]]())
    except OverBudget:
        return False
    after = meter.n
    if meter.over:
        return False  # the source kept producing beyond the work budget
    # once subscribe() returned nothing may be pending on the trampoline that pulls again
    CurrentThreadScheduler.singleton().schedule(lambda s, st: None)
    cover("returned")
    return meter.n == after and done[:1] in ([("C",)], [])


ENCODED = ["reactivex/observable/observable.py", "reactivex/scheduler/currentthreadscheduler.py", "reactivex/scheduler/trampoline.py",
           "reactivex/observable/fromiterable.py", "reactivex/observable/range.py", "reactivex/observable/generate.py",
           "reactivex/observable/repeat.py", "reactivex/operators/_take.py", "reactivex/operators/_amb.py"]
BOUNDS = {"quick": "5 never-ending synchronous sources x 12 shapes (direct, map, filter, merge, flat_map, concat, switch_map, share, amb on "
                   "either side, with_latest_from, combine_latest) x 6 terminators x n in [0,4] x scheduler configuration {default, "
                   "explicit CurrentThreadScheduler.singleton(), explicit ImmediateScheduler}; work budget 4*(n+2) produced elements",
          "thorough": "same with the thorough budget"}
ASSUMES = ["the never-ending source counts what it produces and fails the run beyond the work budget (a livelock becomes a failed "
           "assertion)", "shape, terminator and n are realised by branching: the solver enumerates the pipeline structure"]
MANIFEST = {
    "text": "Bounded symbolic model checking over pipeline structure: source kind, shape, terminator, n and scheduler configuration "
            "are solver-enumerated; subscribe() must return with the source having produced at most the work budget and nothing may "
            "pull again afterwards.",
    "note": "12 shapes x 6 terminators x n<=4 x 3 configurations.",
}
