"""C32 — observe_on / ScheduledObserver deliver every notification once, in order, serially (GT: producer thread vs loop thread)."""
import datetime as _dt

import reactivex
import reactivex.disposable.serialdisposable as m_ser
import reactivex.disposable.singleassignmentdisposable as m_sad
import reactivex.disposable.compositedisposable as m_comp
import reactivex.observable.observable as m_obs
import reactivex.observer.observeonobserver as m_ooo
import reactivex.observer.scheduledobserver as m_so
import reactivex.scheduler.eventloopscheduler as m_els
import reactivex.scheduler.scheduleditem as m_si
import reactivex.subject.replaysubject as m_replay
import reactivex.subject.subject as m_subj
from reactivex import operators as ops
from reactivex.internal.constants import UTC_ZERO
from reactivex.scheduler import EventLoopScheduler
from reactivex.subject import ReplaySubject

from engine import gate
from engine.api import I, harness, cover
from engine.lib import Injected
from harness.C43 import ThreadSource, SEQS, ERR
import harness.C34 as c34
from reactivex.scheduler import NewThreadScheduler

BOOM = Injected("downstream")
SEQS = dict(SEQS)
SEQS["n_n_n_c"] = [("N", 1), ("N", 2), ("N", 3), ("C", None)]


class Controlled(EventLoopScheduler):
    @property
    def now(self):
        return UTC_ZERO + _dt.timedelta(seconds=gate.Clock.t)


class Down:
    """the downstream observer: records (kind, value, thread), flags overlapping deliveries, yields while inside, may raise"""

    def __init__(self, g, fault_at=None, slow=False):
        self.g, self.inside, self.overlap, self.log, self.fault_at, self.slow = g, 0, False, [], fault_at, slow

    def _enter(self, k, v):
        if self.inside:
            self.overlap = True
        self.inside += 1
        n = len(self.log)
        self.log.append((k, v, self.g.me()))
        idx = self.g.me()
        if idx is not None:
            if self.slow and n == 0:
                gate.GateEvent().wait(1.0)  # a slow consumer: the first delivery takes a second of the controlled clock
            else:
                self.g.yield_point(idx, "downstream")
        self.inside -= 1
        if self.fault_at is not None and n == self.fault_at:
            raise BOOM

    def on_next(self, v):
        self._enter("N", v)

    def on_error(self, e):
        self._enter("E", None)

    def on_completed(self):
        self._enter("C", None)


def _inst(tier):
    out = []
    for seq in ("n_c", "n_n_c", "n_n_n_c", "n_e"):
        for fault in (None, 0, 1):
            if fault is not None and seq in ("n_c", "n_e") and fault > 0:
                continue
            out.append({"scen": "observe_on", "seq": seq, "fault": fault, "nt": 1})
    out.append({"scen": "observe_on_newthread", "seq": "n_n_c", "fault": None, "nt": 2})
    out.append({"scen": "observe_on_newthread", "seq": "n_e", "fault": None, "nt": 2})
    # a raising delivery on a scheduler that survives it (the event loop thread dies with the exception, a per-action thread does not)
    out.append({"scen": "observe_on_newthread", "seq": "n_n_n_c", "fault": 0, "nt": 2})
    out.append({"scen": "observe_on_newthread", "seq": "n_n_n_c", "fault": 1, "nt": 2})
    out.append({"scen": "replay_late_subscriber", "seq": "n_n_c", "fault": None, "nt": 2})
    out.append({"scen": "replay_two_subscribers", "seq": "n_c", "fault": None, "nt": 2})
    # P=2: switch away at p0 and to another thread again at a later p1 (the pair is ordered); the first position is chunked over
    # instances so that every chunk has about the same number of schedules (the run length comes from a concrete baseline run)
    full = []
    per = 1200 if tier == "quick" else 2500
    for i in out:
        i = dict(i, P=2, gran="coarse" if tier == "quick" else "fine")
        gate.GRANULARITY = i["gran"]
        L = run_once(i, [])[1] + 2
        lo, acc = 0, 0
        for p in range(L + 1):
            acc += (L - p) * i["nt"] ** 2
            if acc >= per or p == L:
                full.append(dict(i, lo=lo, hi=p if p < L else 100000))
                lo, acc = p + 1, 0
    return full


_BASE = {}


def run_once(inst, preempts):
    seq = SEQS[inst["seq"]]
    scen = inst["scen"]
    c34.Skew.k = 1
    with gate.install(m_so, m_els, m_si, m_ser, m_sad, m_comp, m_obs, m_replay, m_subj, *c34.MODS, extra=c34.EXTRA):
        gate.watch(m_so, m_ooo)
        g = gate.Gate()
        # target scheduler: one event loop thread, or (newthread) a scheduler that runs every action on a thread of its own
        sch = NewThreadScheduler() if scen == "observe_on_newthread" else Controlled(thread_factory=gate.gated_thread_factory)
        downs = [Down(g, inst["fault"], slow=(scen == "observe_on_newthread"))]
        nclients = 1
        if scen in ("observe_on", "observe_on_newthread"):
            src = ThreadSource()
            src.pipe(ops.observe_on(sch)).subscribe(downs[0].on_next, downs[0].on_error, downs[0].on_completed)
            if scen == "observe_on_newthread":
                def paced():  # half a second between notifications: the next one arrives while the slow consumer is busy
                    for item in seq:
                        src.emit([item])
                        gate.GateEvent().wait(0.5)
                g.spawn(paced)
            else:
                g.spawn(lambda: src.emit(seq))
        else:
            subj = ReplaySubject(scheduler=sch)

            def producer():
                for k, v in seq:
                    if k == "N":
                        subj.on_next(v)
                    elif k == "C":
                        subj.on_completed()
                    else:
                        subj.on_error(ERR)
            if scen == "replay_two_subscribers":
                downs.append(Down(g))
                subj.subscribe(downs[1].on_next, downs[1].on_error, downs[1].on_completed)
            g.spawn(producer)
            g.spawn(lambda: subj.subscribe(downs[0].on_next, downs[0].on_error, downs[0].on_completed))
            nclients = 2
        r = g.run(preempts, maxsteps=3000)
        # 'deadlock' = producers finished and the loop thread is parked waiting for work (the scheduler is idle)
        ok = r in ("done", "deadlock") and all(g.done[:nclients])
        errs = dict(g.errors)
        if inst["fault"] is not None:
            # the raising delivery surfaces on the loop thread and nowhere else
            ok = ok and all(i >= nclients and e is BOOM for i, e in errs.items())
        else:
            ok = ok and not errs
        want = [(k, v if k == "N" else None) for k, v in seq]
        if inst["fault"] is not None:
            want = want[: inst["fault"] + 1]
        for d in downs:
            got = [(k, v) for k, v, _ in d.log]
            ok = ok and not d.overlap and got == want
            # on the target scheduler: every delivery on a loop thread, never on a producing / subscribing thread
            ok = ok and all(t is not None and t >= nclients for _, _, t in d.log)
        if not ok and __import__("os").environ.get("VERIF_DEBUG"):
            print("DEBUG", r, g.errors, [d.log for d in downs], g.done, file=__import__("sys").stderr)
        try:
            sch.dispose()
        except Exception:
            pass
        g.run([], maxsteps=300)
        return ok, g.steps


@harness(instances=_inst, p0=I(lambda i: i["lo"], lambda i: i["hi"]), pos=I(0, 100000, n=lambda i: i["P"] - 1), tgt=I(0, lambda i: i["nt"] - 1, n=lambda i: i["P"]),
         timeout=(270, 1800), stock=False)
def h_deliver(a, inst):
    gate.GRANULARITY = "coarse" if inst.get("gran", "coarse") == "coarse" else "fine"
    seq = SEQS[inst["seq"]]
    scen = inst["scen"]

    key = (scen, inst["seq"], inst["fault"], gate.GRANULARITY)
    if key not in _BASE:
        _BASE[key] = run_once(inst, [])
    ok0, L = _BASE[key]
    if not ok0:
        return False
    pre = [a.p0] + list(a.pos)
    nt = inst["nt"]  # number of *other* threads a preemption can switch to
    preempts = []
    if inst["P"] > 1 and pre[1] <= pre[0]:
        return True  # ordered pairs only (the unordered pair is the same schedule)
    for i in range(inst["P"]):
        lo = inst["lo"] if i == 0 else 0
        hi = min(inst["hi"] if i == 0 else 100000, L + 2)
        if lo > hi or pre[i] > hi:
            return True  # beyond the end of the run: no preemption there (covered by the runs with fewer preemptions)
        preempts.append((gate.concrete(pre[i], lo, hi), -1 - gate.concrete(a.tgt[i], 0, nt - 1)))
    with gate.untraced():
        ok, _ = run_once(inst, preempts)
    cover("ran")
    return ok


ENCODED = ["reactivex/observer/scheduledobserver.py", "reactivex/observer/observeonobserver.py", "reactivex/operators/_observeon.py",
           "reactivex/subject/replaysubject.py", "reactivex/scheduler/eventloopscheduler.py"]
BOUNDS = {"quick": "observe_on over a producer thread emitting 1..3 elements then completed / error, downstream raising at delivery 0 / 1 / "
                   "never; ReplaySubject(scheduler=loop) with a subscriber arriving from a second thread while the producer emits, and "
                   "with one early and one late subscriber; target scheduler: the real EventLoopScheduler with a gated loop thread, and "
                   "NewThreadScheduler (every drain step on a thread of its own); "
                   "2 ordered preemptions at coarse yield points (shared writes and calls of scheduledobserver.py / observeonobserver.py "
                   "(/ replaysubject.py), every lock and condition operation anywhere, inside the downstream callbacks)",
          "thorough": "same, instruction-level (fine) yield points"}
ASSUMES = ["producer notifications are serial (one producer thread)", "EventLoopScheduler internals run atomically between their lock / "
           "condition operations here (their own interleavings are C31's subject)",
           "the abstract enqueue/drain model over all interleavings (BMC) named in the quantifier is not built: DESIGN §5"]
MANIFEST = {
    "engine": "GT",
    "text": "Gate-serialised real threads (producer, subscriber, event-loop thread) run the real ScheduledObserver / ObserveOnObserver "
            "/ ReplaySubject code; the preemption schedule is a solver variable under CrossHair: every received notification is "
            "delivered exactly once, in order, on the loop thread, never two at once, nothing is left queued when the scheduler goes "
            "idle, nothing is delivered after a delivery raised.",
    "note": "<=3 elements + terminal; P<=2 ordered preemptions.",
}
