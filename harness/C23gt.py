"""C23 (threads) — a subscriber thread racing the producer thread on the real subject (GT); extends the sequential histories."""
from engine.api import I, harness
from harness import subjgt


@harness(instances=subjgt.instances_for("async"), p0=I(lambda i: i["lo"], lambda i: i["hi"]), pos=I(0, 100000, n=lambda i: i["P"] - 1), timeout=(240, 1800), stock=False)
def h_race(a, inst):
    """the late subscriber receives one of the sequential outcomes (subscription before / between / after the producer's calls),
    the early subscriber everything; nobody is left without a terminal notification"""
    return subjgt.harness_body("async", a, inst)
