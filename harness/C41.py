"""C41 — future, callback and blocking bridges keep their contracts."""
from concurrent.futures import CancelledError, Future

import reactivex
from reactivex import operators as ops
from reactivex.internal.exceptions import SequenceContainsNoElementsError
from reactivex.scheduler import CurrentThreadScheduler, ImmediateScheduler

from engine.api import I, harness, cover
from engine.lib import Injected, falsy, make_scheduler

ERR = Injected("seq")


def seq(shape, v, n):
    """the sequence under test: n elements (values v..), then completed (shape 0) or error (shape 1)"""
    xs = [v + i for i in range(n)]
    if shape == 0:
        return reactivex.from_iterable(xs), xs, None
    return reactivex.concat(reactivex.from_iterable(xs), reactivex.throw(ERR)), xs, ERR


@harness(instances=lambda tier: [dict({"bridge": b}, **({} if tier == "quick" else {"W": 6})) for b in ("to_future", "run", "run_immediate")],
         shape=I(0, 1), n=I(0, lambda i: i.get("W", 3)), v=I(0, 9),
         timeout=(60, 300), stock=False)
def h_last(a, inst):
    """to_future / run(): last element, the sequence's error, or SequenceContainsNoElementsError for an empty sequence"""
    n = a.n
    for c in range(0, inst.get("W", 3) + 1):
        if n == c:
            n = c
    val = falsy(a.v) if a.v < 8 else a.v
    xs = [val] + [100 + i for i in range(n - 1)] if n else []
    xs = list(reversed(xs))  # the (possibly falsy) value is the LAST element
    src = reactivex.from_iterable(xs) if a.shape == 0 else reactivex.concat(reactivex.from_iterable(xs), reactivex.throw(ERR))
    outcome = None
    try:
        if inst["bridge"] == "to_future":
            fut = src.pipe(ops.to_future(Future))
            outcome = ("value", fut.result(timeout=5))
        elif inst["bridge"] == "run":
            outcome = ("value", src.run(scheduler=CurrentThreadScheduler()))
        else:
            from reactivex.run import run as _run
            outcome = ("value", _run(src, scheduler=ImmediateScheduler()))
    except Injected as e:
        outcome = ("raised", e)
    except SequenceContainsNoElementsError:
        outcome = ("empty", None)
    cover("ran")
    if a.shape == 1:
        return outcome == ("raised", ERR)
    if not xs:
        return outcome == ("empty", None)
    return outcome[0] == "value" and outcome[1] is xs[-1] or (outcome[0] == "value" and outcome[1] == xs[-1] and type(outcome[1]) is type(xs[-1]))


@harness(instances=lambda tier: [{"when": w} for w in ("before", "after")], out=I(0, 3), v=I(0, 9), timeout=(60, 300), stock=False)
def h_from_future(a, inst):
    """outcome 0 result / 1 exception / 2 cancelled / 3 unsubscribed first; the future is resolved before or after subscription"""
    fut = Future()
    val = falsy(a.v)
    log = []

    def resolve():
        if a.out == 0:
            fut.set_result(val)
        elif a.out == 1:
            fut.set_exception(ERR)
        elif a.out == 2:
            fut.cancel()

    if inst["when"] == "before" and a.out != 3:
        resolve()
    d = reactivex.from_future(fut).subscribe(lambda x: log.append(("N", x)), lambda e: log.append(("E", e)), lambda: log.append(("C", None)))
    if a.out == 3:
        d.dispose()
        return fut.cancelled() and log in ([], [("E", log[0][1])] if log else [])
    if inst["when"] == "after":
        resolve()
    cover("ran")
    if a.out == 0:
        return len(log) == 2 and log[0][0] == "N" and log[0][1] is val and log[1] == ("C", None)
    if a.out == 1:
        return log == [("E", ERR)]
    return len(log) == 1 and log[0][0] == "E" and isinstance(log[0][1], CancelledError)


@harness(instances=lambda tier: [{"fn": f} for f in ("start", "to_async", "to_async_twice")], v=I(0, 9), boom=I(0, 1), timeout=(60, 300))
def h_start(a, inst):
    """start / to_async: the function's single result then completion (or its exception as on_error); each call of the converted
    function has its own result"""
    sch = make_scheduler()
    val = falsy(a.v)
    calls = [0]

    def func(x):
        calls[0] += 1
        if a.boom and calls[0] == 1:
            raise ERR
        return (x, calls[0])

    logs = []

    def sub(obs):
        log = []
        logs.append(log)
        obs.subscribe(lambda x: log.append(("N", x)), lambda e: log.append(("E", e)), lambda: log.append(("C", None)), scheduler=sch)

    if inst["fn"] == "start":
        sub(reactivex.start(lambda: func(val), sch))
    else:
        conv = reactivex.to_async(func, sch)
        sub(conv(val))
        if inst["fn"] == "to_async_twice":
            sub(conv(7))
    sch.start()
    cover("ran")
    first = [("E", ERR)] if a.boom else None
    if first is None:
        if len(logs[0]) != 2 or logs[0][0][0] != "N" or logs[0][0][1][0] is not val or logs[0][0][1][1] != 1 or logs[0][1] != ("C", None):
            return False
    elif logs[0] != first:
        return False
    if inst["fn"] == "to_async_twice":
        return logs[1] == [("N", (7, 2)), ("C", None)]
    return True


@harness(instances=lambda tier: [{"nargs": n, "mapper": m} for n in (0, 1, 2, 3) for m in (0, 1)], v=I(0, 9), subs=I(1, 2), boom=I(0, 1),
         timeout=(60, 300), stock=False)
def h_from_callback(a, inst):
    """from_callback: exactly one value (the callback arguments, or the mapper's result) and then completion, for every subscription"""
    val = falsy(a.v)
    cb_args = [val, 1, 2][: inst["nargs"]]
    received = []

    def func(x, cb, *rest):
        received.append((x, len(rest)))
        cb(*cb_args)

    def mapper(args):
        if a.boom:
            raise ERR
        return ("mapped", len(args), args[0] if args else None)

    obs = reactivex.from_callback(func, mapper if inst["mapper"] else None)("x")
    ok = True
    for _ in range(a.subs):
        log = []
        obs.subscribe(lambda x: log.append(("N", x)), lambda e: log.append(("E", e)), lambda: log.append(("C", None)))
        if inst["mapper"]:
            if a.boom:
                ok = ok and log == [("E", ERR)]
            else:
                ok = ok and len(log) == 2 and log[0][0] == "N" and log[0][1][:2] == ("mapped", inst["nargs"]) and \
                    (not cb_args or log[0][1][2] is val) and log[1] == ("C", None)
        else:
            if inst["nargs"] == 0:
                # no callback arguments: one value (the empty argument list) then completion
                ok = ok and len(log) == 2 and log[0][0] == "N" and list(log[0][1] or []) == [] and log[1] == ("C", None)
            elif inst["nargs"] == 1:
                ok = ok and len(log) == 2 and log[0][0] == "N" and log[0][1] is val and log[1] == ("C", None)
            else:
                ok = ok and len(log) == 2 and log[0][0] == "N" and list(log[0][1]) == cb_args and log[1] == ("C", None)
    cover("ran")
    # every subscription called the wrapped function with exactly one callback
    return ok and all(r == ("x", 0) for r in received) and len(received) == a.subs


ENCODED = ["reactivex/observable/fromfuture.py", "reactivex/operators/_tofuture.py", "reactivex/observable/observable.py",
           "reactivex/run.py", "reactivex/observable/toasync.py", "reactivex/observable/start.py", "reactivex/observable/fromcallback.py"]
BOUNDS = {"quick": "sequences: empty / 1..3 elements / erroring after 0..3 elements, last element from the falsy domain; "
                   "concurrent.futures.Future outcomes result (falsy values) / exception / cancelled / unsubscribed-first, resolved "
                   "before or after the subscription; start / to_async with a raising or returning function, converted function called "
                   "twice; from_callback with 0..3 callback arguments, with and without (raising) mapper, subscribed once or twice",
          "thorough": "to_future / run over sequences of up to 6 elements; the rest as in the quick tier"}
ASSUMES = ["schedulers are passed explicitly (CurrentThread / Immediate / Tick virtual time) so that no real thread starts",
           "asyncio.Future (C object) and run() on its default NewThreadScheduler are outside: DESIGN §5",
           "from_callback with zero callback arguments emits the empty argument list"]
MANIFEST = {
    "text": "Bounded symbolic model checking: sequence shape, element values, future outcome and callback argument lists are solver "
            "variables; results, raised exceptions and emitted notifications of the bridges must match the statement.",
    "note": "pure-Python futures; explicit schedulers.",
}
