"""C24 — multicasting shares one source subscription per connection."""
import reactivex
from reactivex import operators as ops
from reactivex.subject import ReplaySubject, Subject

from engine.api import I, harness, cover
from engine.lib import make_scheduler, on_completed, on_next

# history op codes: 0 subscribe A  1 subscribe B  2 unsubscribe A  3 unsubscribe B  4 connect  5 disconnect (dispose the last connection)
NOPS = 6


def concretize(x, n):
    for c in range(n):
        if x == c:
            return c
    return n - 1


class Obs:
    def __init__(self, w):
        self.w, self.log, self.handle, self.sub_seq, self.unsub_seq = w, [], None, None, None

    def on_next(self, v):
        self.log.append(("N", v, self.w.tick()))

    def on_error(self, e):
        self.log.append(("E", e, self.w.tick()))

    def on_completed(self):
        self.log.append(("C", None, self.w.tick()))


class World:
    def __init__(self, sch):
        self.sch, self.seq = sch, 0
        self.fed = []  # what the shared subject receives: (seq, kind, value)
        self.connects = []  # (connect_seq, connect_time, disconnect_time or None)

    def tick(self):
        self.seq += 1
        return self.seq

    def tap(self):
        return ops.do_action(lambda v: self.fed.append((self.tick(), "N", v)), lambda e: self.fed.append((self.tick(), "E", e)),
                             lambda: self.fed.append((self.tick(), "C", None)))


VARIANTS = ("publish", "replay2", "publish_value", "multicast_subject", "share", "publish_refcount", "replay_refcount",
            "auto_connect0", "auto_connect1", "auto_connect2", "multicast_mapper", "publish_mapper", "replay_mapper",
            "publish_value_mapper")


def _inst(tier):
    L = 5 if tier == "quick" else 6
    out = []
    for v in VARIANTS:
        for cold in (0, 1):
            for first in range(NOPS):
                if first in (2, 3, 5):
                    continue  # an unsubscribe/disconnect as the very first call is a no-op
                out.append({"variant": v, "cold": cold, "first": first, "L": L})
    return out


def _useful(a, inst):
    ops_ = [inst["first"]] + list(a.op)
    sa = sb = 0
    for o in ops_:
        if o == 0:
            if sa:
                return False
            sa = 1
        elif o == 1:
            if sb:
                return False
            sb = 1
        elif o == 2:
            if sa != 1:
                return False
            sa = 2
        elif o == 3:
            if sb != 1:
                return False
            sb = 2
    return True


@harness(instances=_inst, pre=_useful, op=I(0, NOPS - 1, n=lambda i: i["L"] - 1), timeout=(120, 1200))
def h_history(a, inst):
    sch = make_scheduler()
    w = World(sch)
    variant = inst["variant"]
    # the source: elements every tick, never terminating within the horizon (termination of the shared subject: C20-C23)
    if inst["cold"]:
        src = sch.create_cold_observable([on_next(k, k) for k in range(1, 12)])
    else:
        src = sch.create_hot_observable([on_next(200 + k, k) for k in range(1, 14)])
    tapped = src.pipe(w.tap())
    connectable = None
    if variant == "publish":
        connectable = tapped.pipe(ops.publish())
        shared = connectable
    elif variant == "replay2":
        connectable = tapped.pipe(ops.replay(buffer_size=2, scheduler=sch))
        shared = connectable
    elif variant == "publish_value":
        connectable = tapped.pipe(ops.publish_value(99))
        shared = connectable
    elif variant == "multicast_subject":
        connectable = tapped.pipe(ops.multicast(subject=Subject()))
        shared = connectable
    elif variant == "share":
        shared = tapped.pipe(ops.share())
    elif variant == "publish_refcount":
        shared = tapped.pipe(ops.publish(), ops.ref_count())
    elif variant == "replay_refcount":
        shared = tapped.pipe(ops.replay(buffer_size=2, scheduler=sch), ops.ref_count())
    elif variant.startswith("auto_connect"):
        k = int(variant[-1])
        shared = None  # built at time 200 (auto_connect(0) connects at once)
    elif variant == "publish_mapper":
        shared = tapped.pipe(ops.publish(lambda x: x))
    elif variant == "replay_mapper":
        shared = tapped.pipe(ops.replay(buffer_size=2, mapper=lambda x: x, scheduler=sch))
    elif variant == "publish_value_mapper":
        shared = tapped.pipe(ops.publish_value(99, lambda x: x))
    else:
        shared = tapped.pipe(ops.multicast(subject_factory=lambda s: Subject(), mapper=lambda x: x))
    A, B = Obs(w), Obs(w)
    conn = [None]
    st = {"shared": shared}
    codes = [inst["first"]] + [concretize(x, NOPS) for x in a.op]
    t = 200
    plan = []
    for i, c in enumerate(codes):
        t = t + 1  # calls one tick apart: the symbolic budget of this property goes to the call history
        plan.append((t, c))

    def mk(tk, code):
        def action(s, state):
            if code in (0, 1):
                o = A if code == 0 else B
                if o.handle is None and o.sub_seq is None:
                    o.sub_seq = w.tick()
                    o.t_sub = tk
                    o.handle = st["shared"].subscribe(o.on_next, o.on_error, o.on_completed, scheduler=s)
                    o.after_sub = w.tick()
            elif code in (2, 3):
                o = A if code == 2 else B
                if o.handle is not None and o.unsub_seq is None:
                    o.handle.dispose()
                    o.unsub_seq = w.tick()
                    o.t_unsub = tk
            elif code == 4:
                if connectable is not None:
                    already = bool(w.connects) and w.connects[-1][2] is None
                    conn[0] = connectable.connect(s)
                    if not already:
                        w.connects.append([w.tick(), tk, None])
            elif code == 5:
                if connectable is not None and conn[0] is not None and w.connects and w.connects[-1][2] is None:
                    conn[0].dispose()
                    w.connects[-1][2] = tk
        return action

    def setup(s, state):
        if variant.startswith("auto_connect"):
            k = int(variant[-1])
            st["shared"] = tapped.pipe(ops.publish()).auto_connect(k)

    sch.schedule_absolute(200, setup)
    for tk, code in plan:
        sch.schedule_absolute(tk, mk(tk, code))
    sch.advance_to(212)
    subs = [(x.subscribe, x.unsubscribe) for x in src.subscriptions]
    INF = 10 ** 9
    cover("ran")
    # ---- (1) source subscription log
    if connectable is not None:
        exp = [(c[1], c[2] if c[2] is not None else INF) for c in w.connects]
        if [(s0, e0 if e0 < INF else INF) for s0, e0 in [(x, y if y < 10 ** 8 else INF) for x, y in subs]] != exp:
            return False
    elif variant in ("share", "publish_refcount", "replay_refcount"):
        # connected exactly while the subscriber count is positive
        evs = []
        for o in (A, B):
            if o.sub_seq is not None:
                evs.append((o.sub_seq, +1, o.t_sub))
                if o.unsub_seq is not None:
                    evs.append((o.unsub_seq, -1, o.t_unsub))
        evs.sort()
        exp, cnt, start = [], 0, None
        for _, dlt, tk in evs:
            cnt += dlt
            if cnt == 1 and dlt == 1:
                start = tk
            if cnt == 0:
                exp.append((start, tk))
                start = None
        if start is not None:
            exp.append((start, INF))
        if [(x, y if y < 10 ** 8 else INF) for x, y in subs] != exp:
            return False
    elif variant.startswith("auto_connect"):
        k = int(variant[-1])
        arrivals = sorted([o.t_sub for o in (A, B) if o.sub_seq is not None])
        got_subs = [(x, y if y < 10 ** 8 else INF) for x, y in subs]
        if k == 0:
            wants = [[(200, INF)]]
        else:
            # "once the given number of subscribers arrived": cumulative arrivals, or subscribers present at the same time
            # (an earlier one may have left) -- the statement does not say; both readings are accepted
            cumulative = [(arrivals[k - 1], INF)] if len(arrivals) >= k else []
            evs = []
            for o in (A, B):
                if o.sub_seq is not None:
                    evs.append((o.sub_seq, +1, o.t_sub))
                    if o.unsub_seq is not None:
                        evs.append((o.unsub_seq, -1, o.t_unsub))
            evs.sort()
            cnt, present = 0, []
            for _, dlt, tk in evs:
                cnt += dlt
                if cnt == k and dlt == 1 and not present:
                    present = [(tk, INF)]
            wants = [cumulative, present]
        if got_subs not in wants:
            return False
    else:  # multicast with factory + mapper: one source subscription per subscriber, for the subscriber's lifetime
        want = sorted([(o.t_sub, o.t_unsub if o.unsub_seq is not None else INF) for o in (A, B) if o.sub_seq is not None])
        if sorted([(x, y if y < 10 ** 8 else INF) for x, y in subs]) != want:
            return False
        # each subscriber has its own connection: it receives the source's elements of its own subscription
        for o in (A, B):
            if o.sub_seq is None:
                continue
            end = o.t_unsub if o.unsub_seq is not None else 10 ** 6
            if inst["cold"]:
                want_v = [k for k in range(1, 12) if o.t_sub + k <= 212 and o.t_sub + k < end]
            else:
                want_v = [k for k in range(1, 14) if o.t_sub < 200 + k <= 212 and 200 + k <= end]
            got_v = [v for (k_, v, s0) in o.log if k_ == "N"]
            if variant == "publish_value_mapper":
                want_v = [99] + want_v
            if variant == "replay_mapper" and o.unsub_seq is not None:
                if got_v != want_v[: len(got_v)] or len(got_v) < len(want_v) - 1:
                    return False
            elif got_v != want_v:
                return False
        return True
    # ---- (2) every subscriber receives what the shared subject received from its subscription on (+ replayed/current values)
    for o in (A, B):
        if o.sub_seq is None:
            if o.log:
                return False
            continue
        hi = o.unsub_seq if o.unsub_seq is not None else INF
        live = [(k, v) for (s0, k, v) in w.fed if o.sub_seq < s0 < hi]
        before = [v for (s0, k, v) in w.fed if s0 < o.sub_seq and k == "N"]
        prefix = []
        if variant in ("replay2", "replay_refcount"):
            prefix = [("N", v) for v in before[-2:]]
        elif variant == "publish_value":
            prefix = [("N", before[-1] if before else 99)]
        got = [(k, v) for (k, v, s0) in o.log]
        if variant in ("replay2", "replay_refcount"):
            # replay delivers through a ScheduledObserver: an unsubscribe in the same instant may cut the tail
            want = prefix + live
            if o.unsub_seq is None:
                if got != want:
                    return False
            elif got != want[: len(got)]:
                return False
        elif got != prefix + live:
            return False
    return True


@harness(instances=lambda tier: [{"variant": v} for v in ("publish", "replay", "publish_value", "share")], j=I(0, 3), k=I(0, 2),
         timeout=(60, 300), stock=False)
def h_reentrant_connect(a, inst):
    """a source that emits synchronously while it is being subscribed, and a subscriber that calls connect() again from inside
    its j-th on_next (k extra times): still exactly one source subscription per connection and no duplicated element"""
    nsubs = [0]

    def subscribe(observer, scheduler=None):
        nsubs[0] += 1
        for v in (1, 2, 3):
            observer.on_next(v)
        from reactivex.disposable import Disposable
        return Disposable()

    src = reactivex.create(subscribe)
    v = inst["variant"]
    if v == "share":
        shared = src.pipe(ops.share())
        got = []
        shared.subscribe(got.append)
        return nsubs[0] == 1 and got == [1, 2, 3]
    con = src.pipe({"publish": ops.publish(), "replay": ops.replay(buffer_size=5), "publish_value": ops.publish_value(0)}[v])
    got, n = [], [0]

    def on_next(x):
        got.append(x)
        n[0] += 1
        if a.j and n[0] == a.j:
            for _ in range(a.k):
                con.connect()

    con.subscribe(on_next)
    con.connect()
    exp = [1, 2, 3] if v != "publish_value" else [0, 1, 2, 3]
    return nsubs[0] == 1 and got == exp


ENCODED = ["reactivex/observable/connectableobservable.py", "reactivex/operators/connectable/_refcount.py", "reactivex/operators/_publish.py",
           "reactivex/operators/_multicast.py", "reactivex/operators/_replay.py", "reactivex/operators/_publishvalue.py"]
BOUNDS = {"quick": "call histories of 5 calls one tick apart over {subscribe A/B, unsubscribe A/B, connect, disconnect}, "
                   "on a cold and on a hot source that emits every tick, for publish, replay(2), publish_value, multicast(subject), "
                   "share, publish+ref_count, replay+ref_count, auto_connect(0|1|2), multicast(factory, mapper), publish/replay/publish_value with a mapper; re-entrant connect() from inside on_next on a source that emits synchronously",
          "thorough": "6 calls"}
ASSUMES = ["Tick/Span time stub", "the source does not terminate within the horizon (terminated subjects are C20-C23's subject)",
           "what the shared subject receives is observed with a tap between the source and the multicast operator"]
MANIFEST = {
    "text": "Bounded symbolic model checking over timed call histories: op codes and gaps are solver variables; the test source's "
            "subscription log must show exactly one interval per connection (connected periods only; ref_count: exactly while the "
            "subscriber count is positive; auto_connect: from the n-th subscriber), and every subscriber's record must equal the "
            "subject's input from its subscription on plus replayed/current values.",
    "note": "History length 5 (quick) / 6; two subscribers.",
}
