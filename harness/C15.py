"""C15 — time-shifting operators move notifications by the requested time."""
import os
from datetime import timedelta

import reactivex
from reactivex import operators as ops
from reactivex.scheduler import HistoricalScheduler
from reactivex.scheduler.scheduler import UTC_ZERO

from engine.api import I, harness, cover
from engine.lib import SRC_ERR, make_scheduler, messages, on_completed, on_next, rec_tuples, same_events, times_from_gaps
from engine.ticktime import Span, Tick


def _setup(a, n, base=210):
    xs = [10 + i for i in range(n)]
    ts = times_from_gaps(a.g, base=base)
    tt = (ts[-1] if ts else base) + a.tg
    return xs, ts, tt


def ref_delay(xs, ts, term, tt, d):
    """elements and completion exactly d later, in order; an error is delivered at its own time and drops what is still
    pending (an element due in the very instant of the error is still pending: the error was scheduled first)"""
    if term == 2:
        return [(t + d, "N", x) for x, t in zip(xs, ts) if t + d < tt] + [(tt, "E", SRC_ERR)]
    out = [(t + d, "N", x) for x, t in zip(xs, ts)]
    if term == 1:
        out.append((tt + d, "C", None))
    return out


def _inst(tier, nm_q=3, nm_t=4):
    return [{"N": n} for n in range(0, (nm_q if tier == "quick" else nm_t) + 1)]


@harness(instances=_inst, g=I(0, 3, n=lambda i: i["N"]), tg=I(0, 3), term=I(0, 2), d=I(0, 4), timeout=(120, 900))
def h_delay(a, inst):
    n = inst["N"]
    xs, ts, tt = _setup(a, n)
    sch = make_scheduler()
    src = sch.create_hot_observable(messages(xs, a.g, a.term, a.tg))
    res = sch.start(lambda: src.pipe(ops.delay(a.d)), disposed=260)
    return same_events(rec_tuples(res.messages), ref_delay(xs, ts, a.term, tt, a.d))


@harness(instances=lambda tier: [{"N": n, "cold": c} for n in range(0, (3 if tier == "quick" else 4) + 1) for c in (0, 1)],
         g=I(0, 3, n=lambda i: i["N"]), tg=I(0, 3), term=I(0, 2), d=I(0, 6), timeout=(120, 900))
def h_delay_subscription(a, inst):
    """the source is subscribed exactly d after the subscription; cold: everything shifts by d; hot: only notifications
    strictly after 200 + d are seen (one stamped 200 + d was scheduled before the delayed subscription)"""
    n = inst["N"]
    sch = make_scheduler()
    if inst["cold"]:
        xs, ts, tt = _setup(a, n, base=1)
        src = sch.create_cold_observable(messages(xs, a.g, a.term, a.tg, base=1))
    else:
        xs, ts, tt = _setup(a, n, base=201)
        src = sch.create_hot_observable(messages(xs, a.g, a.term, a.tg, base=201))
    res = sch.start(lambda: src.pipe(ops.delay_subscription(a.d)), disposed=260)
    got = rec_tuples(res.messages)
    subs = [(s.subscribe, s.unsubscribe) for s in src.subscriptions]
    if len(subs) != 1 or subs[0][0] != 200 + a.d:
        return False
    if inst["cold"]:
        off = 200 + a.d
        exp = [(t + off, "N", x) for x, t in zip(xs, ts)]
        if a.term == 1:
            exp.append((tt + off, "C", None))
        elif a.term == 2:
            exp.append((tt + off, "E", SRC_ERR))
    else:
        B = 200 + a.d
        exp = [(t, "N", x) for x, t in zip(xs, ts) if t > B]
        if a.term == 1 and tt > B:
            exp.append((tt, "C", None))
        elif a.term == 2 and tt > B:
            exp.append((tt, "E", SRC_ERR))
    return same_events(got, exp)


@harness(instances=lambda tier: [{"N": n} for n in range(0, (2 if tier == "quick" else 3) + 1)],
         g=I(0, 3, n=lambda i: i["N"]), tg=I(0, 3), term=I(0, 2), dd=I(0, 3, n=lambda i: i["N"]), dk=I(0, 1, n=lambda i: i["N"]),
         timeout=(120, 900))
def h_delay_with_mapper(a, inst):
    """element i is released when its delay observable first emits (dk=0) or completes (dk=1), dd_i ticks after the element"""
    n = inst["N"]
    xs, ts, tt = _setup(a, n)
    sch = make_scheduler()
    src = sch.create_hot_observable(messages(xs, a.g, a.term, a.tg))
    delays = {}
    for i in range(n):
        if a.dk[i] == 0:
            delays[xs[i]] = sch.create_cold_observable(on_next(a.dd[i], 0), on_next(a.dd[i] + 5, 1))
        else:
            delays[xs[i]] = sch.create_cold_observable(on_completed(a.dd[i]))
    res = sch.start(lambda: src.pipe(ops.delay_with_mapper(lambda x: delays[x])), disposed=260)
    got = rec_tuples(res.messages)
    rel = [(ts[i] + a.dd[i], i) for i in range(n)]
    if a.term == 2:
        exp = [(r, "N", xs[i]) for r, i in rel if r < tt]
        order = sorted(exp, key=lambda e: e[0])
        gv = [(t, k, p) for t, k, p in got if k == "N"]
        # same-instant releases of different elements: order not fixed by the statement
        return sorted(gv, key=lambda e: (e[0], e[2])) == sorted(order, key=lambda e: (e[0], e[2])) and got[-1:] == [(tt, "E", SRC_ERR)] and \
            [e[0] for e in gv] == sorted(e[0] for e in gv)
    exp = [(r, "N", xs[i]) for r, i in rel]
    gv = [(t, k, p) for t, k, p in got if k == "N"]
    if sorted(gv, key=lambda e: (e[0], e[2])) != sorted(exp, key=lambda e: (e[0], e[2])):
        return False
    if [e[0] for e in gv] != sorted(e[0] for e in gv):
        return False
    if a.term == 1:
        tc = max([tt] + [r for r, _ in rel])
        return got[-1:] == [(tc, "C", None)] and len(got) == len(gv) + 1
    return len(got) == len(gv)


@harness(instances=_inst, g=I(0, 3, n=lambda i: i["N"]), tg=I(0, 3), term=I(0, 2), which=I(0, 1), timeout=(120, 900))
def h_stamp(a, inst):
    """timestamp: the scheduler clock reading at arrival; time_interval: time since the previous element or the subscription"""
    n = inst["N"]
    xs, ts, tt = _setup(a, n)
    sch = make_scheduler()
    src = sch.create_hot_observable(messages(xs, a.g, a.term, a.tg))
    stock = os.environ.get("VERIF_STOCK") == "1"
    if a.which == 0:
        res = sch.start(lambda: src.pipe(ops.timestamp()), disposed=260)
        got = rec_tuples(res.messages)
        vals = [(t, p.value, sch.to_seconds(p.timestamp)) for t, k, p in got if k == "N"]
        exp = [(t, x, t) for x, t in zip(xs, ts)]
    else:
        res = sch.start(lambda: src.pipe(ops.time_interval()), disposed=260)
        got = rec_tuples(res.messages)
        vals = [(t, p.value, sch.to_seconds(p.interval)) for t, k, p in got if k == "N"]
        prev, exp = 200, []
        for x, t in zip(xs, ts):
            exp.append((t, x, t - prev))
            prev = t
    if vals != exp:
        return False
    tail = [(t, k) for t, k, p in got if k != "N"]
    return tail == ([(tt, "C")] if a.term == 1 else [(tt, "E")] if a.term == 2 else [])


# ------------------------------------------------------------------ datetime configuration (HistoricalScheduler)
def _hinst(tier):
    return [{"N": n, "abs": ab} for n in range(0, 3) for ab in (0, 1)]


def concretize(x, lo, hi):
    for c in range(lo, hi + 1):
        if x == c:
            return c
    return hi


@harness(instances=_hinst, g=I(0, 2, n=lambda i: i["N"]), tg=I(0, 2), term=I(0, 2), d=I(0, 3), timeout=(120, 900), stock=False)
def h_delay_datetime(a, inst):
    """delay with a timedelta / an absolute datetime on the datetime-clock HistoricalScheduler; every time value is realised
    from a small solver-enumerated domain (symbolic datetimes are out of reach: DESIGN §5)"""
    n = inst["N"]
    g = [concretize(x, 0, 2) for x in a.g]
    tg = concretize(a.tg, 0, 2)
    d = concretize(a.d, 0, 3)
    term = concretize(a.term, 0, 2)
    xs = [10 + i for i in range(n)]
    ts = times_from_gaps(g, base=10)
    tt = (ts[-1] if ts else 10) + tg
    sch = HistoricalScheduler()
    T = lambda s: UTC_ZERO + timedelta(seconds=s)  # noqa: E731
    log = []

    def subscribe(observer, scheduler=None):
        for x, t in zip(xs, ts):
            sch.schedule_absolute(T(t), lambda s, st, x=x: observer.on_next(x))
        if term == 1:
            sch.schedule_absolute(T(tt), lambda s, st: observer.on_completed())
        elif term == 2:
            sch.schedule_absolute(T(tt), lambda s, st: observer.on_error(SRC_ERR))

    src = reactivex.create(subscribe)
    if inst["abs"]:
        # absolute due time = now + d at subscription (subscription happens at clock 0)
        op = ops.delay(T(d))
    else:
        op = ops.delay(timedelta(seconds=d))
    clk = lambda: (sch.clock - UTC_ZERO).total_seconds()  # noqa: E731
    src.pipe(op).subscribe(lambda v: log.append((clk(), "N", v)), lambda e: log.append((clk(), "E", e)),
                           lambda: log.append((clk(), "C", None)), scheduler=sch)
    sch.start()
    return same_events(log, ref_delay(xs, ts, term, tt, d))


# ------------------------------------------------------------------ delay_with_mapper: a delay observable that fires synchronously
from reactivex.subject import BehaviorSubject, ReplaySubject  # noqa: E402


@harness(instances=lambda tier: [{"N": n, "gate": g} for n in (1, 2) for g in ("behavior", "replay", "of_immediate")],
         g=I(0, 2, n=lambda i: i["N"]), tg=I(0, 2), term=I(0, 2), timeout=(60, 600))
def h_delay_with_mapper_sync(a, inst):
    """the per-element delay observable is an already open gate (BehaviorSubject / ReplaySubject with a value, or a synchronous
    source): it fires while it is being subscribed.  Every element is released at once and the source's termination is still
    forwarded (nothing stays counted as pending)"""
    from reactivex.scheduler import ImmediateScheduler
    n = inst["N"]
    sch = make_scheduler()
    xs = list(range(n))
    ts = times_from_gaps(a.g)
    tt = (ts[-1] if ts else 210) + a.tg
    src = sch.create_hot_observable(messages(xs, a.g, a.term, a.tg))

    def gate_for(x):
        if inst["gate"] == "behavior":
            return BehaviorSubject(0)
        if inst["gate"] == "replay":
            r = ReplaySubject(scheduler=ImmediateScheduler())
            r.on_next(0)
            return r
        return reactivex.from_iterable([0], scheduler=ImmediateScheduler())  # emits and completes while being subscribed

    res = sch.start(lambda: src.pipe(ops.delay_with_mapper(gate_for)), disposed=260)
    got = rec_tuples(res.messages)
    exp = [(t, "N", x) for x, t in zip(xs, ts)]
    if a.term == 1:
        exp.append((tt, "C", None))
    elif a.term == 2:
        exp.append((tt, "E", SRC_ERR))
    cover("ran")
    return same_events(got, exp)


ENCODED = ["reactivex/operators/_delay.py", "reactivex/operators/_delaysubscription.py", "reactivex/operators/_delaywithmapper.py",
           "reactivex/operators/_timestamp.py", "reactivex/operators/_timeinterval.py", "reactivex/observable/timer.py"]
BOUNDS = {"quick": "N<=3 elements (delay_with_mapper N<=2), gaps in [0,3] incl. same-instant bursts, terminal none/completed/error at "
                   "gap [0,3], delay d in [0,4] (delay_subscription [0,6]), per-element delay observables that emit or complete after "
                   "[0,3]; datetime configuration: HistoricalScheduler with timedelta and absolute datetime delays, N<=2, all values "
                   "realised from {0,1,2}/{0..3}", "thorough": "N<=4 (3)"}
ASSUMES = ["Tick/Span time stub for the numeric instances; the datetime instances run the stock HistoricalScheduler with concrete values",
           "an element due in the very instant of a source error is still pending (the error was scheduled first) and is dropped",
           "delay_with_mapper: the relative order of different elements released in the same instant is not fixed by the statement"]
MANIFEST = {
    "text": "Bounded symbolic model checking: element times incl. bursts, terminal kind/time and delays are solver variables; the "
            "recorded (time, notification) list (and the source's subscription log for delay_subscription) must equal the shifted "
            "timeline computed by the reference rule; datetime clocks via a solver-enumerated small domain.",
    "note": "N<=3; d<=4; datetime values enumerated.",
}
