"""C35 (threaded part) — schedule_periodic on event-loop / new-thread / thread-pool / timeout / catch schedulers under a controlled clock."""
import datetime as _dt

import reactivex.disposable.multipleassignmentdisposable as m_mad
import reactivex.scheduler.catchscheduler as m_catch
import reactivex.scheduler.eventloopscheduler as m_els
import reactivex.scheduler.newthreadscheduler as m_nts
import reactivex.scheduler.periodicscheduler as m_per
import reactivex.scheduler.timeoutscheduler as m_tmo
from reactivex.scheduler import CatchScheduler

from engine import gate
from engine.api import I, harness, cover
from engine.lib import Injected
from harness.C31 import gsleep
from harness.C34 import EXTRA, MODS, Skew, mk, sched_now_s

BOOM = Injected("periodic")
KINDS = ["eventloop", "newthread", "threadpool", "timeout", "catch_true", "catch_false"]


def run_once(inst, vals, preempts):
    """period p, each call consumes e <= p seconds, the client disposes after D seconds, the action raises at call k (0: never)"""
    p, e = inst["p"], inst["e"]
    D, k = vals
    Skew.k = 1
    kind = inst["kind"]
    with gate.install(*MODS, m_per, m_catch, m_mad, extra=EXTRA):
        gate.watch(m_per, m_nts, m_els, m_tmo, m_catch)
        g = gate.Gate()
        handled = []
        base = mk("eventloop" if kind.startswith("catch") else kind)
        s = base
        if kind.startswith("catch"):
            def handler(ex):
                handled.append(ex)
                return kind == "catch_true"
            s = CatchScheduler(base, handler)
        calls, bad, inside, seq, marks = [], [], [0], [0], {}

        def tick():
            seq[0] += 1
            return seq[0]

        def action(state):
            if inside[0]:
                bad.append("two calls at once")
            inside[0] += 1
            calls.append((sched_now_s(), state, tick()))
            try:
                if k and len(calls) == k:
                    raise BOOM
                if e:
                    gsleep(e)
                else:
                    idx = g.me()
                    if idx is not None:
                        g.yield_point(idx, "in-action")
            finally:
                inside[0] -= 1
            return state + 1

        def client():
            d = s.schedule_periodic(_dt.timedelta(seconds=p), action, 0)
            gsleep(D)
            d.dispose()
            marks["disposed"] = tick()
            marks["disposed_at"] = sched_now_s()

        g.spawn(client)
        r = g.run(preempts, maxsteps=2500)
        ok = r in ("done", "deadlock") and g.done[0] and not bad
        # the only exception that may surface is the injected one, on a scheduler thread
        for i, ex in g.errors.items():
            if i == 0 or ex is not BOOM or not k or kind == "catch_true":
                ok = False
        # states are threaded 0, 1, 2, ...; call j never starts before j*p on the scheduler clock
        late = []
        for j, (t, st, q) in enumerate(calls, 1):
            if st != j - 1 or t < j * p:
                ok = False
            if "disposed" in marks and q > marks["disposed"]:
                # a call that starts after dispose() returned: only the single call that was already past its disposed-check when
                # dispose() ran (it was due by then) -- cancellation of a call in flight on another thread is not claimed
                late.append(j)
                if j * p > marks["disposed_at"]:
                    ok = False
        if len(late) > 1:
            ok = False  # the periodic work went on after dispose() had returned
        if k and len(calls) > k:
            ok = False  # a call after the action raised
        if kind.startswith("catch") and handled not in ([], [BOOM]):
            ok = False
        if kind == "catch_true" and k and len(calls) == k and handled != [BOOM]:
            ok = False
        if not preempts:
            # undisturbed run: every thread runs as soon as it can, so the calls are exactly at j*p, one per period until the
            # dispose instant / the raise
            want = [j for j in range(1, 20) if j * p < D and (not k or j <= k)]
            got = [t for t, _, _ in calls]
            if got[: len(want)] != [float(j * p) for j in want] or len(got) > len(want) + 1:
                ok = False
        if not ok and __import__("os").environ.get("VERIF_DEBUG"):
            print("DEBUG", r, g.errors, bad, calls, marks, handled, g.done, file=__import__("sys").stderr)
        if kind in ("eventloop", "catch_true", "catch_false"):
            try:
                base.dispose()
            except Exception:
                pass
            g.run([], maxsteps=300)
        return ok, g.steps


def _inst(tier):
    out = []
    for kind in KINDS:
        for p, e in ((1, 0), (1, 1), (2, 1)) if tier == "quick" else ((1, 0), (1, 1), (2, 0), (2, 1), (2, 2)):
            out.append({"kind": kind, "p": p, "e": e, "P": 1, "gran": "coarse" if tier == "quick" else "fine"})
    return out


_BASE = {}


@harness(instances=_inst, D=I(1, 4), k=I(0, 2), p0=I(0, 100000), pos=I(0, 100000, n=lambda i: i["P"] - 1), tgt=I(0, 1, n=lambda i: i["P"]),
         timeout=(270, 1800), stock=False)
def h_threaded(a, inst):
    gate.GRANULARITY = inst.get("gran", "coarse")
    vals = (gate.concrete(a.D, 1, 4), gate.concrete(a.k, 0, 2))
    key = (inst["kind"], inst["p"], inst["e"], inst.get("gran"), vals)
    if key not in _BASE:
        with gate.untraced():
            _BASE[key] = run_once(inst, vals, [])
    ok0, L = _BASE[key]
    if not ok0:
        return False
    pre = [a.p0] + list(a.pos)
    preempts = []
    if inst["P"] > 1 and pre[1] <= pre[0]:
        return True
    for i in range(inst["P"]):
        if pre[i] > L + 2:
            return True  # beyond the end of the run
        preempts.append((gate.concrete(pre[i], 0, L + 2), -1 - gate.concrete(a.tgt[i], 0, 1)))
    with gate.untraced():
        ok, _ = run_once(inst, vals, preempts)
    cover("ran")
    return ok
