"""C28 — virtual time runs actions in due order on a monotone clock."""
import os
from datetime import timedelta

from reactivex.internal.exceptions import ArgumentOutOfRangeException
from reactivex.scheduler import HistoricalScheduler, VirtualTimeScheduler
from reactivex.scheduler.scheduler import UTC_ZERO
from reactivex.testing import TestScheduler

from engine.api import I, harness, known, cover
from engine.ticktime import TickScheduler, TickVTS

# call codes: 0 schedule  1 schedule_relative(x-1)  2 schedule_absolute(x)  3 advance_to(x)  4 advance_by(x-1)
#             5 sleep(x-1)  6 start()  7 cancel the (x mod n)-th scheduled top-level action
NCODES = 8
# action behaviours: 0 nothing  1 schedules a child immediately  2 schedules a child after 1 tick
#                    3 cancels the first scheduled top-level action  4 calls scheduler.sleep(2) from inside the action
NBEH = 5


def concretize(x, n):
    for c in range(n):
        if x == c:
            return c
    return n - 1


class RefVT:
    """reference virtual-time scheduler written from the statement: a list ordered by (due, seq)"""

    def __init__(self, clock_on_cancelled):
        self.clock, self.seq, self.q, self.log = 0, 0, [], []
        self.clock_on_cancelled = clock_on_cancelled

    def push(self, due, aid, beh):
        self.seq += 1
        item = {"due": due, "seq": self.seq, "id": aid, "beh": beh, "cancelled": False}
        self.q.append(item)
        return item

    def _run(self, item, tops):
        if item["due"] > self.clock and (not item["cancelled"] or self.clock_on_cancelled):
            self.clock = item["due"]
        if item["cancelled"]:
            return
        self.log.append((item["id"], self.clock))
        b = item["beh"]
        if b == 1:
            self.push(self.clock, item["id"] + 10, 0)
        elif b == 2:
            self.push(self.clock + 1, item["id"] + 10, 0)
        elif b == 3 and tops:
            tops[0]["cancelled"] = True
        elif b == 4:
            self.clock += 2

    def _next(self):
        best = None
        for it in self.q:
            if best is None or (it["due"], it["seq"]) < (best["due"], best["seq"]):
                best = it
        return best

    def start(self, tops):
        while self.q:
            it = self._next()
            self.q.remove(it)
            self._run(it, tops)

    def advance_to(self, t, tops):
        if t < self.clock:
            self.log.append(("raise", "advance"))
            return
        if t == self.clock and known("C28-advance-to-now", True):
            return  # recorded finding: advance_to/advance_by to the current instant runs nothing (see known_findings.json)
        while self.q:
            it = self._next()
            if it["due"] > t:
                break
            self.q.remove(it)
            self._run(it, tops)
        self.clock = t

    def sleep(self, d):
        if d < 0:
            self.log.append(("raise", "sleep"))
            return
        self.clock += d


def run_ref(prog, clock_on_cancelled):
    r = RefVT(clock_on_cancelled)
    tops = []
    for k, (c, x, b) in enumerate(prog):
        if c == 0:
            tops.append(r.push(r.clock, k, b))
        elif c == 1:
            tops.append(r.push(r.clock + (x - 1), k, b))
        elif c == 2:
            tops.append(r.push(x, k, b))
        elif c == 3:
            r.advance_to(x, tops)
        elif c == 4:
            r.advance_to(r.clock + (x - 1), tops)
        elif c == 5:
            r.sleep(x - 1)
        elif c == 6:
            r.start(tops)
        elif tops:
            tops[x % len(tops)]["cancelled"] = True
    r.start(tops)
    return r.log


def run_real(sch, prog, A, R, clock):
    """A(x): absolute time value, R(d): relative time value, clock(): numeric reading of the scheduler clock"""
    log, tops = [], []

    def mk(aid, beh):
        def action(scheduler, state):
            log.append((aid, clock()))
            if beh == 1:
                scheduler.schedule(mk(aid + 10, 0))
            elif beh == 2:
                scheduler.schedule_relative(R(1), mk(aid + 10, 0))
            elif beh == 3 and tops:
                tops[0].dispose()
            elif beh == 4:
                scheduler.sleep(R(2))
        return action

    for k, (c, x, b) in enumerate(prog):
        if c == 0:
            tops.append(sch.schedule(mk(k, b)))
        elif c == 1:
            tops.append(sch.schedule_relative(R(x - 1), mk(k, b)))
        elif c == 2:
            tops.append(sch.schedule_absolute(A(x), mk(k, b)))
        elif c == 3:
            try:
                sch.advance_to(A(x))
            except ArgumentOutOfRangeException:
                log.append(("raise", "advance"))
        elif c == 4:
            try:
                sch.advance_by(R(x - 1))
            except ArgumentOutOfRangeException:
                log.append(("raise", "advance"))
        elif c == 5:
            try:
                sch.sleep(R(x - 1))
            except ArgumentOutOfRangeException:
                log.append(("raise", "sleep"))
        elif c == 6:
            VirtualTimeScheduler.start(sch)  # (TestScheduler.start is the test driver, not the scheduler's start)
        elif tops:
            tops[x % len(tops)].dispose()
    VirtualTimeScheduler.start(sch)
    return log


def check(prog, kind):
    stock = os.environ.get("VERIF_STOCK") == "1"
    if kind == "hist":
        sch = HistoricalScheduler()
        got = run_real(sch, prog, lambda x: UTC_ZERO + timedelta(seconds=x), lambda d: timedelta(seconds=d),
                       lambda: (sch.clock - UTC_ZERO).total_seconds())
    elif kind == "vts":
        sch = VirtualTimeScheduler() if stock else TickVTS()
        got = run_real(sch, prog, lambda x: x, lambda d: d, lambda: sch.clock)
    else:
        sch = TestScheduler() if stock else TickScheduler()
        got = run_real(sch, prog, lambda x: x, lambda d: d, lambda: sch.clock)
    for coc in (True, False):
        exp = run_ref(prog, coc)
        if len(exp) == len(got) and all(e[0] == g[0] and e[1] == g[1] for e, g in zip(exp, got)):
            return True
    return False


def _inst(tier):
    L = 3 if tier == "quick" else 4
    out = []
    for kind in ("vts", "test"):
        for first in range(NCODES):
            for second in range(NCODES):
                if tier == "quick" and kind == "test" and 2 not in (first, second):
                    continue  # TestScheduler only overrides schedule_absolute: quick keeps the programs that call it
                out.append({"kind": kind, "L": L, "first": first, "second": second, "X": 3 if tier == "quick" else 4,
                            "B": 1 if tier == "quick" else L})
    return out


@harness(instances=_inst, c=I(0, NCODES - 1, n=lambda i: i["L"] - 2), x=I(0, lambda i: i["X"], n=lambda i: i["L"]),
         b=I(0, NBEH - 1, n=lambda i: i["B"]), timeout=(150, 1500))
def h_program(a, inst):
    L = inst["L"]
    codes = [inst["first"], inst["second"]] + [concretize(c, NCODES) for c in a.c]
    # quick tier (B == 1): only the first scheduled action has a non-trivial behaviour
    beh, nb = [], 0
    for k in range(L):
        if codes[k] <= 2 and nb < inst["B"]:
            beh.append(concretize(a.b[nb], NBEH))
            nb += 1
        else:
            beh.append(0)
    prog = [(codes[k], a.x[k], beh[k]) for k in range(L)]
    return check(prog, inst["kind"])


# --- datetime clock (HistoricalScheduler): the same programs with every value realised from a small domain
def _hinst(tier):
    out = []
    for first in range(NCODES):
        for second in range(NCODES):
            if tier == "quick":
                out.append({"first": first, "second": second, "L": 2})  # two calls + final start(); thorough: 3 and 4 calls
            else:
                out.append({"first": first, "second": second, "L": 3})
                out.append({"first": first, "second": second, "L": 4, "_timeout": 3000})
    return out


@harness(instances=_hinst, c=I(0, NCODES - 1, n=lambda i: i["L"] - 2), x=I(0, 2, n=lambda i: i["L"]),
         b=I(0, 2, n=lambda i: i["L"]), timeout=(150, 1500), stock=False)
def h_historical(a, inst):
    L = inst["L"]
    codes = [inst["first"], inst["second"]] + [concretize(c, NCODES) for c in a.c]
    prog = [(codes[k], concretize(a.x[k], 3), (0, 2, 4)[concretize(a.b[k], 3)] if codes[k] <= 2 else 0) for k in range(L)]
    return check(prog, "hist")


# ------------------------------------------------------------------ long runs: many actions at distinct times, then a tie
@harness(instances=lambda tier: [{"kind": k, "base": b, "via": v} for k in ("hist", "vts", "test") for b in ((0, 96) if tier == "quick" else (0, 46, 96, 196))
                                 for v in ("start", "advance_to")], dn=I(0, 10), tie=I(1, 3), timeout=(150, 900), stock=False)
def h_long_run(a, inst):
    """n = base + dn actions at n distinct due times followed by `tie` actions sharing one later due time (and one action they
    schedule for 'now'): every action runs with the clock equal to its due time -- however many actions the run has already
    executed (the anti-spin guard must count actions per instant, not per run)"""
    from datetime import timedelta as _td
    from engine.gate import concrete, untraced
    from reactivex.internal.constants import UTC_ZERO as _Z
    from reactivex.scheduler import HistoricalScheduler, VirtualTimeScheduler
    from reactivex.testing import TestScheduler
    n = inst["base"] + concrete(a.dn, 0, 10)
    tie = concrete(a.tie, 1, 3)
    with untraced():
        hist = inst["kind"] == "hist"
        sch = HistoricalScheduler() if hist else (VirtualTimeScheduler() if inst["kind"] == "vts" else TestScheduler())
        T = (lambda k: _Z + _td(seconds=k)) if hist else (lambda k: float(k))
        bad, ran = [], []

        def mk(due, again):
            def action(scheduler, state):
                ran.append(due)
                clock = scheduler.clock if not hist else scheduler.now
                if clock != T(due):
                    bad.append((due, clock))
                if again:
                    scheduler.schedule(mk(due, False))  # 'now': same due time
            return action

        for k in range(1, n + 1):
            sch.schedule_absolute(T(k), mk(k, False))
        for _ in range(tie):
            sch.schedule_absolute(T(n + 5), mk(n + 5, True))
        if inst["via"] == "start":
            VirtualTimeScheduler.start(sch)
        else:
            sch.advance_to(T(n + 10))
        ok = not bad and ran == list(range(1, n + 1)) + [n + 5] * (2 * tie)
    cover("ran")
    return ok


ENCODED = ["reactivex/scheduler/virtualtimescheduler.py", "reactivex/internal/priorityqueue.py",
           "reactivex/scheduler/scheduleditem.py", "reactivex/testing/testscheduler.py",
           "reactivex/scheduler/historicalscheduler.py", "reactivex/scheduler/scheduler.py"]
BOUNDS = {"quick": "programs of 3 top-level calls over {schedule, schedule_relative(-1..3), schedule_absolute(0..3; thorough 0..4), advance_to, "
                   "advance_by, sleep, start, cancel_j}, each scheduled action with one of 5 behaviours (nothing / schedule child now / "
                   "schedule child +1 / cancel the first action / sleep(2) inside the action), followed by a final start() (quick: only the first scheduled action has a non-trivial behaviour); symbolic time arguments on the "
                   "Tick-stubbed VirtualTimeScheduler and TestScheduler; HistoricalScheduler (datetime) with every value realised "
                   "from {0,1,2}, behaviours nothing / child +1 / sleep(2), 2 calls (quick) or 3-4 calls (thorough)",
          "thorough": "4 top-level calls"}
ASSUMES = ["Tick/Span stub for the numeric-clock instances (samples re-run on the stock VirtualTimeScheduler/TestScheduler)",
           "whether the clock also moves to the due time of a *cancelled* action is not fixed by the statement: both readings accepted",
           "nested advance/start from inside actions not generated", "fewer than 100 actions per instant (spinning guard is C29)"]
MANIFEST = {
    "text": "Bounded symbolic model checking of the real VirtualTimeScheduler/TestScheduler/HistoricalScheduler code against a "
            "20-line reference scheduler (list ordered by (due, seq)): call codes, time arguments and action behaviours are solver "
            "variables; invocation order and clock at invocation must match for every program within the bound.",
    "note": "3 (quick) / 4 (thorough) top-level calls + children; time arguments in [-1,4].",
}
