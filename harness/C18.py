"""C18 — windows and buffers partition the source correctly."""
import reactivex
from reactivex import operators as ops

from engine.api import I, harness, cover, known
from engine.lib import SRC_ERR, Injected, make_scheduler, messages, on_completed, on_next, rec_tuples, times_from_gaps

B_ERR = Injected("boundary")


class WinLog:
    """subscribes a recorder to every emitted window at emission; one global sequence orders window openings, window
    terminations, source arrivals (tap on the source) and deliveries into windows"""

    def __init__(self, sch):
        self.sch, self.seq = sch, 0
        self.windows = []  # dict(open_seq, open_t, items [(seq, v)], close_seq, close_t, kind)
        self.arrivals = []  # (seq, t, v)
        self.src_term = None

    def tick(self):
        self.seq += 1
        return self.seq

    def tap(self):
        return ops.do_action(lambda v: self.arrivals.append((self.tick(), self.sch.clock, v)),
                             lambda e: setattr(self, "src_term", (self.tick(), self.sch.clock, "E")),
                             lambda: setattr(self, "src_term", (self.tick(), self.sch.clock, "C")))

    def attach(self, w):
        rec = {"open_seq": self.tick(), "open_t": self.sch.clock, "items": [], "close_seq": None, "close_t": None, "kind": None}
        self.windows.append(rec)

        def close(kind):
            rec["close_seq"], rec["close_t"], rec["kind"] = self.tick(), self.sch.clock, kind
        w.subscribe(lambda v: rec["items"].append((self.tick(), v)), lambda e: close("E"), lambda: close("C"))

    def consistent(self, skip_terminal=False):
        """every element is in exactly the windows open when it arrived, in arrival order; windows still open when the source
        terminated end with the source's terminal kind"""
        for w in self.windows:
            hi = w["close_seq"] if w["close_seq"] is not None else 10 ** 9
            want = [v for (s, t, v) in self.arrivals if w["open_seq"] < s < hi]
            # an element that arrived earlier in the very instant in which the window opened may or may not be counted as
            # arriving "while open" (the order inside one instant is not fixed by the statement)
            opt = [v for (s, t, v) in self.arrivals if s < w["open_seq"] and t == w["open_t"]]
            have = [v for _, v in w["items"]]
            if have != want and have[len(have) - len(want):] != want:
                return False
            extra = have[: len(have) - len(want)]
            if extra and extra != opt[len(opt) - len(extra):]:
                return False
        if self.src_term is not None and not skip_terminal:
            s, t, kind = self.src_term
            for w in self.windows:
                if w["close_seq"] is None:
                    return False
                if w["close_seq"] > s and (w["kind"] != kind or w["close_t"] != t):
                    return False
        return True


def run_windows(a, n, make_op, others=None, term_domain=True):
    sch = make_scheduler()
    xs = [10 + i for i in range(n)]
    src = sch.create_hot_observable(messages(xs, a.g, a.term, a.tg, base=203))
    wl = WinLog(sch)
    op = make_op(sch)
    res = sch.start(lambda: src.pipe(wl.tap(), op, ops.do_action(wl.attach)), disposed=232)
    return sch, wl, xs, times_from_gaps(a.g, base=203), rec_tuples(res.messages)


# ------------------------------------------------------------------ count
def _cinst(tier):
    nm = 4 if tier == "quick" else 5
    return [{"N": n, "count": c, "skip": s} for n in range(0, nm + 1) for c in (1, 2, 3) for s in (1, 2, 3)]


@harness(instances=_cinst, g=I(0, 2, n=lambda i: i["N"]), tg=I(0, 2), term=I(1, 2), timeout=(90, 900))
def h_count(a, inst):
    """window k holds exactly elements k*skip .. k*skip+count-1; buffer_with_count emits the same contents"""
    n, c, s = inst["N"], inst["count"], inst["skip"]
    sch, wl, xs, ts, outer = run_windows(a, n, lambda sch: ops.window_with_count(c, s))
    if not wl.consistent():
        return False
    full = [xs[k * s:k * s + c] for k in range(0, n // s + 2) if k * s <= n]
    got = [[v for _, v in w["items"]] for w in wl.windows]
    # a window for index k is opened when element k*skip arrives (the first at subscription); trailing empty windows allowed
    # only where the rule opens one
    exp = full  # window k opens as soon as element k*skip - 1 has arrived, so a (possibly empty) window exists for k*skip <= n
    if got != exp:
        return False
    # buffers = window contents (empty trailing buffer is dropped by the documented filter)
    sch2 = make_scheduler()
    src2 = sch2.create_hot_observable(messages(xs, a.g, a.term, a.tg, base=203))
    res2 = sch2.start(lambda: src2.pipe(ops.buffer_with_count(c, s)), disposed=232)
    bufs = [p for _, k, p in rec_tuples(res2.messages) if k == "N"]
    if a.term == 1:
        return bufs == [w for w in exp if w]
    # on error buffers still open are not emitted: the emitted ones are the completed windows
    closed = [w for k, w in enumerate(exp) if len(w) == c and k * s + c <= n]
    return bufs == closed


# ------------------------------------------------------------------ time
def _tinst(tier):
    nm = 2 if tier == "quick" else 3
    return [{"N": n, "span": sp, "shift": sh} for n in range(0, nm + 1) for sp in (1, 2, 3) for sh in (1, 2, 3)]


@harness(instances=_tinst, g=I(0, 3, n=lambda i: i["N"]), tg=I(0, 3), term=I(1, 2), timeout=(120, 900))
def h_time(a, inst):
    """windows open at 200 + k*shift and close span later; buffer_with_time emits the window contents at the closing instants"""
    n, sp, sh = inst["N"], inst["span"], inst["shift"]
    sch, wl, xs, ts, outer = run_windows(a, n, lambda sch: ops.window_with_time(sp, sh))
    if not wl.consistent():
        return False
    tt = (ts[-1] if ts else 203) + a.tg
    for k, w in enumerate(wl.windows):
        if w["open_t"] != 200 + k * sh:
            return False
        natural = 200 + k * sh + sp
        if natural < tt or (natural == tt and False):
            if w["close_t"] != natural or w["kind"] != "C":
                return False
        elif natural > tt:
            if w["close_t"] != tt or w["kind"] != ("C" if a.term == 1 else "E"):
                return False
    # every window due to open before the source terminated exists
    kmax = 0
    while 200 + kmax * sh < tt:
        kmax += 1
    if len(wl.windows) < kmax:
        return False
    # buffers
    sch2 = make_scheduler()
    src2 = sch2.create_hot_observable(messages(xs, a.g, a.term, a.tg, base=203))
    res2 = sch2.start(lambda: src2.pipe(ops.buffer_with_time(sp, sh)), disposed=232)
    ev2 = rec_tuples(res2.messages)
    bufs = [(t, p) for t, k, p in ev2 if k == "N"]
    closed = [(w["close_t"], [v for _, v in w["items"]]) for w in wl.windows if w["kind"] == "C"]
    closed.sort(key=lambda e: e[0])
    if a.term == 2:
        closed = [c for c in closed if c[0] < tt]
    return sorted(bufs, key=lambda e: e[0]) == closed or [b for b in bufs] == [c for c in closed]


# ------------------------------------------------------------------ boundary / closing selector / toggle / time-or-count
def _binst(tier):
    nm = 2 if tier == "quick" else 3
    return [{"rule": r, "N": n, "M": m} for r in ("boundary", "when", "toggle", "time_or_count") for n in range(0, nm + 1)
            for m in ((0, 1, 2) if r in ("boundary", "toggle") else (1,))]


@harness(instances=_binst, g=I(0, 3, n=lambda i: i["N"]), tg=I(0, 3), term=I(1, 2), h=I(0, 3, n=lambda i: i["M"]), bterm=I(0, 2),
         d=I(0, 2), timeout=(120, 900))
def h_rules(a, inst):
    n, m, rule = inst["N"], inst["M"], inst["rule"]
    bts = times_from_gaps(a.h, base=202)

    def make(sch):
        if rule == "boundary":
            b = sch.create_hot_observable(messages([0] * m, a.h, a.bterm, 1, base=202, err=B_ERR))
            return ops.window(b)
        if rule == "when":
            closing = sch.create_cold_observable(on_next(1 + a.d, 0), on_completed(9))
            cnt = [0]

            def mapper():
                cnt[0] += 1
                return closing if cnt[0] <= 4 else reactivex.never()
            return ops.window_when(mapper)
        if rule == "toggle":
            opens = sch.create_hot_observable(messages(list(range(m)), a.h, 0, 1, base=202))
            closing = sch.create_cold_observable(on_next(1 + a.d, 0))
            return ops.window_toggle(opens, lambda o: closing)
        dd = 1
        for c in (1, 2, 3):
            if a.d + 1 == c:
                dd = c
        return ops.window_with_time_or_count(dd, 2)

    sch, wl, xs, ts, outer = run_windows(a, n, make)
    # recorded finding: window_toggle is driven by the openings sequence (GroupJoin); a *completing* source neither ends the
    # open windows nor stops new ones from opening.  Inside that region only the contents rule is checked.
    toggle_completed = rule == "toggle" and a.term == 1 and known("C18-toggle-source-completion", True)
    if not wl.consistent(skip_terminal=toggle_completed):
        return False
    tt = (ts[-1] if ts else 203) + a.tg
    if toggle_completed:
        tt = 10 ** 6
    if rule == "boundary":
        # a window at subscription, a new one at each boundary tick before the end (closing the previous one at that tick)
        end = tt
        if a.bterm == 2:
            be = (bts[-1] if bts else 202) + 1
            end = min(end, be)
        ticks = [t for t in bts if t < end or (t == end and False)]
        opens = [w["open_t"] for w in wl.windows]
        if opens[: len(ticks) + 1] != [200] + ticks:
            return False
        for w, nxt in zip(wl.windows, ticks):
            if w["close_t"] != nxt:
                return False
    elif rule == "toggle":
        opens = [w["open_t"] for w in wl.windows]
        exp_open = [t for t in bts if t < tt]
        if opens[: len(exp_open)] != exp_open[: len(opens)] or len(opens) < len(exp_open):
            return False
        for w in wl.windows:
            natural = w["open_t"] + 1 + a.d
            if natural < tt and (w["close_t"] != natural or w["kind"] != "C"):
                return False
    elif rule == "when":
        # windows follow each other without gaps: each closes 1 + d after it opened (while the source runs)
        for k, w in enumerate(wl.windows):
            if k < 4 and w["open_t"] + 1 + a.d < tt and w["close_t"] != w["open_t"] + 1 + a.d:
                return False
            if k > 0 and w["open_t"] != wl.windows[k - 1]["close_t"]:
                return False
    else:
        # time-or-count: no window ever holds more than `count` elements nor stays open longer than the timespan
        for w in wl.windows:
            if len(w["items"]) > 2:
                return False
            if w["close_t"] is not None and w["close_t"] - w["open_t"] > a.d + 1:
                return False
    cover("ran")
    return True


EXTRA_MODULES = ["harness.C18gt"]  # time windows on a real (gated) timer thread
ENCODED = ["reactivex/operators/_window.py", "reactivex/operators/_windowwithcount.py", "reactivex/operators/_windowwithtime.py",
           "reactivex/operators/_windowwithtimeorcount.py", "reactivex/operators/_buffer.py", "reactivex/operators/_bufferwithtime.py",
           "reactivex/operators/_bufferwithtimeorcount.py", "reactivex/operators/_groupjoin.py"]
BOUNDS = {"quick": "count windows: N<=4 elements, count and skip in {1,2,3} (skip <,=,> count); time windows: N<=2, timespan and "
                   "timeshift in {1,2,3} (overlapping and gapped), horizon 32 ticks; boundary / closing-selector / toggle / "
                   "time-or-count rules: N<=2 elements, <=2 boundary or opening ticks with gaps in [0,3], closing delay 1..3; source "
                   "terminal completed/error", "thorough": "N<=5 (count) / 3"}
ASSUMES = ["Tick/Span time stub; timespan/timeshift concrete per instance (the operator builds real timedeltas from them)",
           "rule-independent oracle: one global sequence orders window openings, window terminations, source arrivals and deliveries; "
           "each window must contain exactly the arrivals between its opening and its termination",
           "empty trailing buffers follow the operator's documented filter"]
MANIFEST = {
    "text": "Bounded symbolic model checking: the source timeline, boundary/opening timelines and closing delays are solver "
            "variables; every emitted window gets its own recorder; contents must equal the arrivals while the window was open, "
            "opening/closing instants must follow the rule (count, time, boundary, closing selector, toggle), open windows must end "
            "with the source's terminal kind and buffers must equal the window contents.",
    "note": "N<=4 (count) / 2 (others); parameters in {1,2,3}.",
}
