"""C35 — periodic scheduling threads state, keeps the period and stops.  (virtual-time part; threaded schedulers: see the GT jobs)"""
import os
from datetime import timedelta

from reactivex.scheduler import CatchScheduler, HistoricalScheduler, VirtualTimeScheduler
from reactivex.scheduler.scheduler import UTC_ZERO

from engine.api import I, harness, cover
from engine.lib import Injected, make_scheduler
from engine.ticktime import TickVTS

BOOM = Injected("periodic")
EXTRA_MODULES = ["harness.C35gt"]  # the threaded schedulers under a controlled clock (gate threads)


def concretize(x, lo, hi):
    for c in range(lo, hi + 1):
        if x == c:
            return c
    return hi


def _inst(tier):
    return [{"kind": k} for k in ("test", "vts", "catch_true", "catch_false", "hist")]


def _pre(a, inst):
    return a.e < a.p


@harness(instances=_inst, pre=_pre, p=I(1, 4), D=I(0, 14), k=I(0, 5), e=I(0, 2), timeout=(150, 900))
def h_periodic(a, inst):
    """period p, dispose at relative time D (0 = never within the horizon), the action raises at its k-th call (0 = never).
    Each call consumes e < p units of scheduler time (sleep).  Expected: call j happens at j*p with the state returned by call j-1 (initial state 0, action returns state+1); nothing after
    the dispose instant (a call due exactly at D comes after the dispose action, which was scheduled first); nothing after a raise"""
    kind = inst["kind"]
    calls = []
    handled = []
    stock = os.environ.get("VERIF_STOCK") == "1"
    if kind == "hist":
        p, D, k, e = concretize(a.p, 1, 4), concretize(a.D, 0, 14), concretize(a.k, 0, 5), concretize(a.e, 0, 2)
        sch = HistoricalScheduler()
        base = sch
        clock = lambda: (sch.clock - UTC_ZERO).total_seconds()  # noqa: E731
        R = lambda s: timedelta(seconds=s)  # noqa: E731
        A = lambda s: UTC_ZERO + timedelta(seconds=s)  # noqa: E731
    else:
        p, D, k, e = a.p, a.D, a.k, a.e
        base = make_scheduler() if kind != "vts" else (VirtualTimeScheduler() if stock else TickVTS())
        sch = base
        clock = lambda: base.clock  # noqa: E731
        R = lambda s: s  # noqa: E731
        A = lambda s: s  # noqa: E731
    target = sch
    if kind.startswith("catch"):
        verdict = kind == "catch_true"

        def handler(ex):
            handled.append(ex)
            return verdict
        target = CatchScheduler(base, handler)

    def action(state):
        calls.append((clock(), state))
        if k and len(calls) == k:
            raise BOOM
        if e:
            base.sleep(R(e))  # the action consumes e < p units of the scheduler's time: the next call is still due at (j+1)*p
        return state + 1

    disp = [None]
    if D:
        base.schedule_absolute(A(D), lambda s, st: disp[0].dispose())
    disp[0] = target.schedule_periodic(R(p), action, 0)
    escaped = None
    try:
        base.advance_to(A(15))
    except Injected as e:
        escaped = e
    exp = []
    j = 1
    while j * p <= 15:
        t = j * p
        if D and t >= D:
            break
        exp.append((t, j - 1))
        if k and j == k:
            break
        j += 1
    if [(t, s) for t, s in calls] != exp:
        return False
    raised = bool(k) and len(exp) == k
    if kind == "catch_true":
        if escaped is not None or (raised and handled != [BOOM]) or (not raised and handled):
            return False
    elif kind == "catch_false":
        if raised != (escaped is BOOM) or (raised and handled != [BOOM]):
            return False
    else:
        if raised != (escaped is BOOM):
            return False
    cover("ran")
    return True


# ------------------------------------------------------------------ fractional action time (stock schedulers, concrete numbers)
@harness(instances=lambda tier: [{"kind": k} for k in ("test", "vts", "hist", "catch")], q=I(1, 3), pq=I(4, 8), timeout=(60, 300), stock=False)
def h_periodic_fraction(a, inst):
    """period pq/4 s, every call consumes q/4 s (q/4 < pq/4) of the scheduler's time: fractions of a second, so real float /
    datetime clocks (all numbers realised by branching, the run itself is concrete).  Call j is still due at exactly j * period"""
    from engine.gate import concrete, untraced
    q, pq = concrete(a.q, 1, 3), concrete(a.pq, 4, 8)
    with untraced():
        from reactivex.testing import TestScheduler
        hist = inst["kind"] == "hist"
        base = HistoricalScheduler() if hist else (VirtualTimeScheduler() if inst["kind"] == "vts" else TestScheduler())
        target = CatchScheduler(base, lambda ex: True) if inst["kind"] == "catch" else base
        period, spent = pq / 4, q / 4
        calls = []

        def action(state):
            now = (base.now - UTC_ZERO).total_seconds()
            calls.append((now, state))
            base.sleep(timedelta(seconds=spent) if hist else spent)
            return state + 1

        target.schedule_periodic(timedelta(seconds=period) if hist else period, action, 0)
        base.advance_to((UTC_ZERO + timedelta(seconds=6 * period + 0.1)) if hist else 6 * period + 0.1)
        ok = calls == [(j * period, j - 1) for j in range(1, 7)]
    cover("ran")
    return ok


ENCODED = ["reactivex/scheduler/periodicscheduler.py", "reactivex/scheduler/catchscheduler.py", "reactivex/scheduler/virtualtimescheduler.py",
           "reactivex/scheduler/newthreadscheduler.py", "reactivex/scheduler/eventloopscheduler.py", "reactivex/scheduler/timeoutscheduler.py",
           "reactivex/scheduler/threadpoolscheduler.py", "reactivex/observable/interval.py", "reactivex/observable/timer.py"]
BOUNDS = {"quick": "period in [1,4], each call consuming 0..2 (< period) ticks of scheduler time, dispose at 1..14 ticks or never, raise at "
                   "the k-th call (k in 1..5) or never, horizon 15 ticks; "
                   "TestScheduler and VirtualTimeScheduler (symbolic, Tick stub), CatchScheduler with handler verdict True/False over "
                   "them, HistoricalScheduler (datetime clock, values realised by branching); interval/periodic timers: C37.  Threaded "
                   "part (gate threads, controlled clock): EventLoop / NewThread / ThreadPool / Timeout schedulers and CatchScheduler "
                   "(verdict True / False) over an event loop, period 1..2 s, call duration 0..period, dispose after 1..4 s from a "
                   "client thread, raise at call 1..2 or never, 1 preemption (coarse yield points; 'time passes' moves)",
          "thorough": "same with the thorough budget; threaded part: 5 (period, duration) pairs, instruction-level (fine) yield points"}
ASSUMES = ["Tick/Span time stub for the numeric schedulers", "a call due exactly at the dispose instant does not happen (the dispose action "
           "was scheduled first: FIFO, C28)", "threaded part: threading.Timer / Event / Condition / Lock and ThreadPoolExecutor are gate-aware contract stubs on a "
           "controlled clock; 'exactly at k*period' is required of the undisturbed run, 'never before k*period' of every schedule; a "
           "single call already past its disposed-check on another thread when dispose() runs may still start (cancelling a call in "
           "flight is not claimed)"]
MANIFEST = {
    "engine": "XH+GT",
    "text": "Bounded symbolic model checking of PeriodicScheduler.schedule_periodic and CatchScheduler.schedule_periodic on the real "
            "virtual-time schedulers: period, dispose time and raise position are solver variables; invocation times and threaded "
            "states must equal k*period / k-1, nothing may run after dispose or after a raise, and the handler verdict decides "
            "whether the exception escapes.  Threaded schedulers: gate-serialised real threads on a controlled clock with the "
            "dispose time, raise position and preemption schedule as solver variables.",
    "note": "horizon 15 ticks (virtual); 1..4 s, P<=1 (threaded, quick).",
}
