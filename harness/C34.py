"""C34 — real-time schedulers never run an action early or after cancellation (GT + controlled clock; ImmediateScheduler: XH)."""
import datetime as _dt

import reactivex.disposable.compositedisposable as m_comp
import reactivex.disposable.singleassignmentdisposable as m_sad
import reactivex.scheduler.eventloopscheduler as m_els
import reactivex.scheduler.newthreadscheduler as m_nts
import reactivex.scheduler.scheduleditem as m_si
import reactivex.scheduler.scheduler as m_sched
import reactivex.scheduler.threadpoolscheduler as m_tps
import reactivex.scheduler.timeoutscheduler as m_tmo
from reactivex.internal.constants import UTC_ZERO
from reactivex.internal.exceptions import WouldBlockException
from reactivex.scheduler import EventLoopScheduler, ImmediateScheduler, NewThreadScheduler, ThreadPoolScheduler, TimeoutScheduler

from engine import gate
from engine.api import I, harness, cover
from harness.C31 import gsleep


class Skew:
    k = 1  # k == 2: the scheduler clock is slow and coarse: it shows floor(t) / 2 when the clock of condition waits and timers shows t


def controlled_now():
    t = gate.Clock.t
    return UTC_ZERO + _dt.timedelta(seconds=t if Skew.k == 1 else int(t) / Skew.k)


def sched_now_s():
    """the scheduler clock as the scheduler sees it (a datetime, microsecond resolution), in seconds"""
    return (controlled_now() - UTC_ZERO).total_seconds()


class FakeExecutor:
    """concurrent.futures.ThreadPoolExecutor contract: a submitted callable runs, once, on some pool thread (here: a gated worker;
    the pool is never exhausted)"""

    def __init__(self, max_workers=None):
        pass

    def submit(self, fn, *a, **k):
        gate._active.spawn(lambda: fn(*a, **k), "pool")

        class F:
            def cancel(self):
                return False
        return F()


EXTRA = {"default_now": controlled_now, "default_thread_factory": gate.gated_thread_factory, "ThreadPoolExecutor": FakeExecutor}
MODS = [m_sched, m_tmo, m_nts, m_tps, m_els, m_si, m_sad, m_comp]
KINDS = ["timeout", "newthread", "threadpool", "eventloop"]


def mk(kind):
    if kind == "timeout":
        class T(TimeoutScheduler):  # the singleton is per class: a fresh subclass gives a fresh scheduler
            pass
        return T()
    if kind == "newthread":
        return NewThreadScheduler()
    if kind == "threadpool":
        return ThreadPoolScheduler()
    return EventLoopScheduler()


def run_once(inst, vals, preempts):
    """vals: concrete (mode, d0, d1, c)"""
    mode, d0, d1, c = vals
    Skew.k = inst["skew"]
    with gate.install(*MODS, extra=EXTRA):
        gate.watch(m_tmo, m_els, m_nts)
        g = gate.Gate()
        s = mk(inst["kind"])
        started, bad, marks = {}, [], {}
        seq = [0]

        def tick():
            seq[0] += 1
            return seq[0]

        def act(name):
            def action(scheduler, state):
                now = sched_now_s()
                started[name] = (now, tick())
                if name in marks and now < marks[name]:
                    bad.append("%s started at %s before its due time %s" % (name, now, marks[name]))
                idx = g.me()
                if idx is not None:
                    g.yield_point(idx, "in-action")
            return action

        def submit(name, m, d):
            # due time on the scheduler clock, fixed before the call
            t0 = sched_now_s()
            if m == 0:
                marks[name] = t0
                return s.schedule(act(name))
            marks[name] = t0 + d
            if m == 1:
                return s.schedule_relative(_dt.timedelta(seconds=d), act(name))
            return s.schedule_absolute(UTC_ZERO + _dt.timedelta(seconds=t0 + d), act(name))

        scen = inst["scen"]
        if scen == "one":
            def client():
                submit("A", mode, d0)
        elif scen == "cancel":
            def client():
                h = submit("A", 1 + mode % 2, d0 + 1)
                if c:
                    gsleep(c)
                h.dispose()
                marks["A.cancelled"] = (sched_now_s(), tick())
        else:
            def client():
                ha = submit("A", 1 + mode % 2, d0 + 1)
                submit("B", 1, d1 + 1)
                if c:
                    gsleep(c)
                ha.dispose()
                marks["A.cancelled"] = (sched_now_s(), tick())
        g.spawn(client)
        r = g.run(preempts, maxsteps=3000)
        ok = r in ("done", "deadlock") and g.done[0] and not g.errors and not bad
        if "A.cancelled" in marks and "A" in started:
            t_c, q_c = marks["A.cancelled"]
            # disposed (dispose() returned) before its due time, yet it started
            if t_c < marks["A"]:
                ok = False
        if scen == "one" and "A" not in started:
            ok = False  # and an uncancelled action does run
        if scen == "two_cancel_first" and "B" not in started:
            ok = False
        if not ok and __import__("os").environ.get("VERIF_DEBUG"):
            print("DEBUG", r, g.errors, bad, started, marks, g.done, file=__import__("sys").stderr)
        if inst["kind"] == "eventloop":
            try:
                s.dispose()
            except Exception:
                pass
            g.run([], maxsteps=300)
        return ok, g.steps


def _inst(tier):
    out = []
    for kind in KINDS:
        for skew in ((1,) if kind == "timeout" else (1, 2)):
            for scen in ("one", "cancel", "two_cancel_first"):
                if scen == "two_cancel_first" and tier == "quick" and (kind in ("newthread", "threadpool") or skew != 1):
                    continue  # one private event loop per action: nothing beyond "cancel"
                out.append({"kind": kind, "skew": skew, "scen": scen, "P": 1, "gran": "coarse" if tier == "quick" else "fine"})
    return out


_BASE = {}


@harness(instances=_inst, mode=I(0, 2), d0=I(0, 2), d1=I(0, 1), c=I(0, 2), p0=I(0, 100000), pos=I(0, 100000, n=lambda i: i["P"] - 1),
         tgt=I(0, 1, n=lambda i: i["P"]), timeout=(270, 1800), stock=False)
def h_realtime(a, inst):
    gate.GRANULARITY = inst.get("gran", "coarse")
    mode, d0 = gate.concrete(a.mode, 0, 2), gate.concrete(a.d0, 0, 2)
    if inst["scen"] == "one":
        d1, c = 0, 0
        if mode == 0 and d0:
            return True  # schedule() has no delay
    else:
        if d0 > 1:
            return True
        c = gate.concrete(a.c, 0, 2)
        d1 = gate.concrete(a.d1, 0, 1) if inst["scen"] == "two_cancel_first" else 0
        if mode == 0:
            return True  # modes 1 / 2 only (relative / absolute)
    vals = (mode, d0, d1, c)
    key = (inst["kind"], inst["skew"], inst["scen"], inst.get("gran"), vals)
    if key not in _BASE:
        with gate.untraced():
            _BASE[key] = run_once(inst, vals, [])
    ok0, L = _BASE[key]
    if not ok0:
        return False
    pre = [a.p0] + list(a.pos)
    preempts = []
    if inst["P"] > 1 and pre[1] <= pre[0]:
        return True
    for i in range(inst["P"]):
        if pre[i] > L + 2:
            return True  # beyond the end of the run
        preempts.append((gate.concrete(pre[i], 0, L + 2), -1 - gate.concrete(a.tgt[i], 0, 1)))
    with gate.untraced():
        ok, _ = run_once(inst, vals, preempts)
    cover("ran")
    return ok


# ------------------------------------------------------------------ ImmediateScheduler (XH, single thread)
QUARTERS = [_dt.timedelta(seconds=k / 4) for k in range(-8, 9)]  # real timedeltas made at import time


@harness(instances=lambda tier: [{"form": f} for f in ("schedule", "relative_timedelta", "relative_float", "absolute")], k=I(-8, 8),
         timeout=(60, 300), stock=False)
def h_immediate(a, inst):
    s = ImmediateScheduler()
    k = gate.concrete(a.k, -8, 8)
    ran = []
    inside = [False]

    def action(scheduler, state):
        ran.append((state, inside[0]))

    inside[0] = True
    raised = None
    try:
        if inst["form"] == "schedule":
            s.schedule(action, "st")
        elif inst["form"] == "relative_timedelta":
            s.schedule_relative(QUARTERS[k + 8], action, "st")
        elif inst["form"] == "relative_float":
            s.schedule_relative(k / 4, action, "st")
        else:
            # an absolute time k/4 s away from now: positive delays must raise; the clock moves on between the two reads of now,
            # so only clearly positive / clearly past offsets are decided
            s.schedule_absolute(s.now + QUARTERS[k + 8], action, "st")
    except WouldBlockException as e:
        raised = e
    inside[0] = False
    cover("ran")
    positive = inst["form"] != "schedule" and k > 0
    if positive:
        return raised is not None and ran == []
    return raised is None and ran == [("st", True)]  # ran exactly once, synchronously (before the call returned), with its state


ENCODED = ["reactivex/scheduler/timeoutscheduler.py", "reactivex/scheduler/newthreadscheduler.py", "reactivex/scheduler/threadpoolscheduler.py",
           "reactivex/scheduler/eventloopscheduler.py", "reactivex/scheduler/immediatescheduler.py", "reactivex/scheduler/scheduleditem.py"]
BOUNDS = {"quick": "Timeout / NewThread / ThreadPool / EventLoop schedulers, one client thread: one action via schedule / relative / absolute "
                   "with delay 0..2 s; cancel after 0..2 s of an action due in 1..2 s; two actions (1..2 s, 1..2 s) with the first one "
                   "cancelled; scheduler clock equal to the timer clock and (event-loop family) a slow coarse clock showing floor(t)/2; 1 preemption "
                   "(coarse yield points of the scheduler modules, every lock/condition/timer operation, inside actions; a preemption "
                   "towards a sleeping timer thread is the move 'time passes'); ImmediateScheduler: schedule / relative (timedelta, "
                   "float) / absolute with offsets -2..2 s in quarter seconds",
          "thorough": "the two-action scenario for every scheduler and clock model; instruction-level (fine) yield points"}
ASSUMES = ["threading.Timer / Condition / Lock / Event are gate-aware contract stubs on a controlled clock; Scheduler.now (default_now) is "
           "the controlled scheduler clock", "TimeoutScheduler: the timer clock and the scheduler clock agree (it never re-reads now; a "
           "wall clock stepped back under a running threading.Timer is outside)", "ThreadPoolExecutor is a contract stub (submitted "
           "callables run once on a pool thread; the pool is never exhausted); thread factories give gated workers",
           "ImmediateScheduler.schedule_absolute: offsets are quarter seconds, far above the time between its two clock reads"]
MANIFEST = {
    "engine": "GT+XH",
    "text": "Gate-serialised real threads (client, timer threads, loop / pool threads) run the real scheduler code on a controlled "
            "clock; delays, cancellation time and the preemption schedule are solver variables under CrossHair: no action starts "
            "before its due time on the scheduler clock, none starts although dispose() returned before its due time, uncancelled "
            "actions do run.  ImmediateScheduler: synchronous execution and WouldBlockException for every positive delay.",
    "note": "1 client thread; P<=1; coarse (quick) / fine (thorough) yield points.",
}
