"""C39 — fluent operator methods equal their piped operators.

One harness instance per fluent method: the argument values are built from the method's own signature (parameter name ->
domain), the call is made in up to three shapes (all positional, keywords where the two signatures agree on the name, only the
required arguments), and `source.m(*a, **kw)` is compared with `source.pipe(ops.m(*a, **kw))` on identical virtual-time sources.
"""
import inspect

import reactivex
from reactivex import Observable
from reactivex import operators as ops
from reactivex.subject import Subject

from engine.api import I, harness, cover
from engine.lib import Injected, make_scheduler, messages, on_completed, on_next, rec_tuples, same_events

METHODS = sorted(n for n in dir(Observable) if not n.startswith("_") and callable(getattr(Observable, n)) and hasattr(ops, n))
EXCLUDED = {
    "do": "fluent do(on_next, on_error, on_completed) is documented as do_action; ops.do takes an observer object (different signature by design)",
    "to_future": "returns a future, subject of C41",
    "single_or_default_async": "internal helper exposed for completeness; compared through single_or_default",
}
FLATTEN = {"window", "window_when", "window_toggle", "window_with_count", "window_with_time", "window_with_time_or_count", "group_by",
           "group_by_until"}
ELEM = {"starmap": "pair", "starmap_indexed": "pair", "pluck": "dict", "pluck_attr": "attr", "dematerialize": "note",
        "merge_all": "obs", "switch_latest": "obs", "concat_all": "obs", "exclusive": "obs"}


class World:
    """identical sources for the two variants"""

    def __init__(self, a, name):
        self.sch = make_scheduler()
        sch = self.sch
        kind = ELEM.get(name)
        self.inner = sch.create_cold_observable(on_next(1, 70), on_next(2, 71), on_completed(3))
        self.closing = sch.create_cold_observable(on_next(1 + a.q, 0), on_completed(2 + a.q))
        self.closing2 = sch.create_cold_observable(on_next(4 + a.q, 0), on_completed(5 + a.q))
        vals = []
        av = list(a.v)
        if name in ("average", "to_marbles"):  # float division / string building: realise the values by branching
            av = [next(c for c in range(0, 4) if x == c) for x in av]
        for i, v in enumerate(av):
            if kind == "pair":
                vals.append((v, i))
            elif kind == "dict":
                vals.append({"k": v})
            elif kind == "attr":
                o = type("O", (), {})()
                o.k = v
                vals.append(o)
            elif kind == "note":
                from reactivex.notification import OnNext
                vals.append(OnNext(v))
            elif kind == "obs":
                vals.append(self.inner)
            else:
                vals.append(v)
        self.src = sch.create_hot_observable(messages(vals, a.g, a.term, 1 + a.tg))
        self.other = sch.create_hot_observable(on_next(209, 50), on_next(214, 51), on_completed(219))
        self.p = a.p


def value_for(w, method, pname):
    """argument value by parameter name (Appendix A of DESIGN.md)"""
    p, sch = w.p, w.sch
    inner, closing, other = w.inner, w.closing, w.other
    if pname in ("predicate",):
        if method in ("find", "find_index"):
            return lambda x, i, s: x >= p
        return lambda x: x >= p
    if pname == "predicate_indexed":
        return lambda x, i: (x + i) % 2 == 0
    if pname in ("mapper", "project"):
        if method in ("flat_map", "flat_map_latest", "concat_map", "switch_map"):
            return lambda x: inner
        if method == "expand":
            return lambda x: reactivex.empty()
        if method in ("publish", "publish_value", "replay", "multicast"):
            return lambda s: s
        if method == "starmap":
            return lambda a_, b_: a_ + b_
        return lambda x: x + 1
    if pname == "mapper_indexed":
        if method in ("flat_map_indexed", "switch_map_indexed"):
            return lambda x, i: inner
        if method == "starmap_indexed":
            return lambda a_, i: a_ + i
        return lambda x, i: x + i
    if pname == "key_mapper":
        return lambda x: x % 2
    if pname == "element_mapper":
        return lambda x: x + 10
    if pname == "comparer":
        if method in ("min", "max", "min_by", "max_by"):
            return lambda a_, b_: a_ - b_
        return lambda a_, b_: a_ == b_
    if pname == "accumulator":
        return lambda acc, x: (10 if acc is None else acc) + x  # a None seed counts as 10: an ignored seed shows
    if pname == "seed":
        return None if p == 2 else p  # an explicit None seed is a seed (not "no seed given")
    if pname == "action":
        return lambda: None
    if pname in ("on_next",):
        return lambda x: None
    if pname == "on_error":
        return lambda e: None
    if pname == "on_completed":
        return lambda: None
    if pname == "attr":
        return "k"
    if pname == "key":
        return "k"
    if pname == "second" and method == "zip_with_iterable":
        return [7, 8, 9]
    if pname in ("boundaries", "openings", "other", "right", "right_source", "second", "handler"):
        return other
    if pname == "sampler":
        return other
    if pname == "closing_mapper":
        if method in ("buffer_when", "window_when"):
            cnt = [0]

            def cm():
                cnt[0] += 1
                return closing if cnt[0] <= 3 else reactivex.never()
            return cm
        return lambda o: closing
    if pname == "right_duration_mapper":
        return lambda x: w.closing2  # different from the left one: swapped mappers must show
    if pname in ("duration_mapper", "left_duration_mapper", "delay_duration_mapper", "timeout_duration_mapper",
                 "throttle_duration_mapper"):
        return lambda x: closing
    if pname in ("subscription_delay", "first_timeout"):
        return closing
    if pname == "buffer_size":
        return 2
    if pname == "window":
        return 3  # a finite replay window on the virtual clock (a dropped scheduler argument shows for a late subscriber)
    if pname in ("count", "skip"):
        return p + 1
    if pname == "default_value":
        return 9
    if pname in ("duetime", "duration", "window_duration", "end_time", "start_time"):
        return p + 1
    if pname in ("timespan", "timeshift"):
        c = 1
        for k in (1, 2, 3):
            if p + 1 == k:
                c = k
        return c
    if pname == "has_default":
        return True
    if pname == "inclusive":
        return True
    if pname == "index":
        return p
    if pname == "initial_value":
        return 9
    if pname == "max_concurrent":
        return 1
    if pname in ("repeat_count", "retry_count"):
        return 2
    if pname == "scheduler":
        return sch
    if pname == "start":
        return 1
    if pname in ("stop", "step"):
        return None
    if pname == "subject":
        return Subject()
    if pname == "subject_mapper":
        return lambda: Subject()
    if pname == "value":
        return p
    if pname == "condition":
        return lambda _: False
    raise KeyError(pname)


def call_shapes(method):
    """[(label, [positional param names], [keyword param names])] from the fluent method's own signature"""
    fsig = inspect.signature(getattr(Observable, method))
    osig = inspect.signature(getattr(ops, method))
    fparams = list(fsig.parameters.values())[1:]
    onames = {p.name for p in osig.parameters.values()}
    pos = [p for p in fparams if p.kind in (p.POSITIONAL_ONLY, p.POSITIONAL_OR_KEYWORD)]
    kwo = [p for p in fparams if p.kind == p.KEYWORD_ONLY]
    var = [p for p in fparams if p.kind == p.VAR_POSITIONAL]
    shapes = []
    oreq = {p.name for p in osig.parameters.values() if p.default is inspect._empty and p.kind in (p.POSITIONAL_ONLY, p.POSITIONAL_OR_KEYWORD)}
    opos = [p for p in osig.parameters.values() if p.kind in (p.POSITIONAL_ONLY, p.POSITIONAL_OR_KEYWORD)]
    # required in either signature (by position): a parameter that only one side declares optional is passed explicitly
    required = [p for i, p in enumerate(pos) if p.default is inspect._empty or (i < len(opos) and opos[i].default is inspect._empty)]
    shapes.append(("required", [p.name for p in required], [], bool(var)))
    if len(pos) > len(required) or kwo:
        shapes.append(("positional", [p.name for p in pos], [p.name for p in kwo if p.name in onames], bool(var)))
    same_names = [p.name for p in pos if p.name in onames]
    if same_names and not var and len(same_names) == len(pos):
        shapes.append(("keywords", [], [p.name for p in pos] + [p.name for p in kwo if p.name in onames], False))
    opt_mapper = [p for p in pos + kwo if p.name == "mapper" and p.default is not inspect._empty]
    if opt_mapper and not var:
        # the connectable branch of publish / replay / publish_value: every argument by keyword except the optional mapper
        names_ = [p.name for p in pos + kwo if p.name != "mapper" and p.name in onames]
        if names_:
            shapes.append(("keywords_without_mapper", [], names_, False))
    return shapes


def run_variant(a, method, shape, fluent):
    w = World(a, method)
    label, posn, kwn, var = shape
    args = [value_for(w, method, n) for n in posn]
    kwargs = {n: value_for(w, method, n) for n in kwn}
    if var:
        vname = [p.name for p in inspect.signature(getattr(Observable, method)).parameters.values() if p.kind == p.VAR_POSITIONAL][0]
        if vname == "args":
            args += [7, 8]
        else:
            args += [w.other]
    if fluent:
        res = getattr(w.src, method)(*args, **kwargs)
    else:
        op = getattr(ops, method)(*args, **kwargs)
        res = w.src.pipe(op)
    if isinstance(res, (list, tuple)):
        res = reactivex.merge(*res)
    if method in FLATTEN:
        res = res.pipe(ops.merge_all())
    if method == "group_join":
        res = res.pipe(ops.map(lambda t: t[1]), ops.merge_all())
    obs = w.sch.create_observer()
    late = w.sch.create_observer()

    def go(s, st):
        res.subscribe(obs, scheduler=s)
        if hasattr(res, "connect"):
            res.connect(s)
    w.sch.schedule_absolute(200, go)
    if hasattr(res, "connect"):
        # connectables: a late second subscriber sees the replayed / current values
        w.sch.schedule_absolute(216, lambda s, st: res.subscribe(late, scheduler=s))
    w.sch.advance_to(232)
    out = []
    for t, k, pl in rec_tuples(obs.messages) + [(t + 1000, k, pl) for t, k, pl in rec_tuples(late.messages)]:
        if hasattr(pl, "value") and (hasattr(pl, "timestamp") or hasattr(pl, "interval")):
            pl = (pl.value, w.sch.to_seconds(getattr(pl, "timestamp", None) or getattr(pl, "interval")))
        out.append((t, k, pl))
    subs = [(s.subscribe, s.unsubscribe) for s in w.src.subscriptions]
    return out, subs


def _inst(tier):
    return [{"m": m, "_timeout": 300 if m in ("group_by_until", "to_marbles", "group_join", "join") else (120 if tier == "quick" else 900)}
            for m in METHODS if m not in EXCLUDED and not (tier == "quick" and m == "to_marbles")]


@harness(instances=_inst, v=I(0, 3, n=2), g=I(0, 2, n=2), tg=I(0, 1), term=I(1, 2), p=I(0, 2), q=I(0, 1), timeout=(120, 900))
def h_fluent(a, inst):
    m = inst["m"]
    for shape in call_shapes(m):
        try:
            f_out, f_subs = run_variant(a, m, shape, True)
            f_exc = None
        except Exception as e:  # argument validation errors must be the same on both sides
            f_out, f_subs, f_exc = None, None, type(e)
        try:
            p_out, p_subs = run_variant(a, m, shape, False)
            p_exc = None
        except Exception as e:
            p_out, p_subs, p_exc = None, None, type(e)
        if f_exc is not p_exc:
            return False
        if f_exc is None:
            if not same_events(f_out, p_out) or f_subs != p_subs:
                return False
    cover("ran")
    return True


def JOBS(tier):
    return [{"fn": "q_complete", "inst": {}}]


def q_complete(inst, timeout):
    """every public fluent method has an operator function of the same name (or is excluded with a reason) and is instantiable
    from the parameter-name table; a new method that the table cannot instantiate makes this job fail (never a silent skip)"""
    bad = []
    from engine.api import Args
    a = Args(dict(v=[1, 2], g=[1, 1], tg=0, term=1, p=1, q=0))
    for m in METHODS:
        if m in EXCLUDED:
            continue
        try:
            for shape in call_shapes(m):
                w = World(a, m)
                for n in shape[1] + shape[2]:
                    value_for(w, m, n)
        except KeyError as e:
            bad.append("%s: no domain for parameter %s" % (m, e))
    public = [n for n in dir(Observable) if not n.startswith("_") and callable(getattr(Observable, n))]
    for n in public:
        if n not in METHODS and n not in ("pipe", "run", "subscribe"):
            bad.append("%s: fluent method without operator function of the same name" % n)
    if bad:
        return {"status": "ERROR", "message": "; ".join(bad)}
    return {"status": "CONFIRMED", "paths": len(METHODS), "queries": 0, "solver_s": 0.0, "covered": ["__end__"], "message": "%d methods" % len(METHODS)}


def replay(fn_name, inst, args):
    r = q_complete(inst, 10)
    return r["status"] == "CONFIRMED", r.get("message", "")


ENCODED = ["reactivex/observable/mixins/combination.py", "reactivex/observable/mixins/conditional.py",
           "reactivex/observable/mixins/error_handling.py", "reactivex/observable/mixins/filtering.py",
           "reactivex/observable/mixins/mathematical.py", "reactivex/observable/mixins/multicasting.py",
           "reactivex/observable/mixins/testing.py", "reactivex/observable/mixins/time_based.py",
           "reactivex/observable/mixins/transformation.py", "reactivex/observable/mixins/utility.py",
           "reactivex/observable/mixins/windowing.py", "reactivex/operators/__init__.py"]
BOUNDS = {"quick": "all fluent methods (131 minus 3 excluded with a reason), each in up to three call shapes (required arguments only / "
                   "all positional + keyword-only / all by keyword), source of 2 elements with symbolic values in [0,3] and gaps in "
                   "[0,2], terminal completed/error, parameter p in [0,2] feeding counts, durations, thresholds and seeds; a fixed second "
                   "hot source, cold inner and closing sources", "thorough": "same with the thorough budget"}
ASSUMES = ["Tick/Span time stub", "to_marbles (string building on symbolic times) is compared in the thorough tier only", "arguments are derived from the parameter names of the fluent method's signature; where the two "
           "signatures use different parameter names the keyword shape is not generated for that method",
           "connectables are compared after connect(); partition outputs are merged; windows/groups are flattened"]
MANIFEST = {
    "text": "Bounded symbolic differential check: for every fluent method and every call shape derived from its signature, "
            "source.m(*a, **kw) and source.pipe(ops.m(*a, **kw)) run on identical symbolic timelines and must give the same records "
            "(and the same source subscription log, and the same argument-validation exception if any).",
    "note": "N=2 elements; argument domains by parameter name.",
}
