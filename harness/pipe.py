"""Generic pipeline runner over the operator catalog: builds the sources an entry uses from symbolic arguments,
runs source.pipe(op) on the (Tick-stubbed) TestScheduler and returns everything the pipeline properties look at."""
import sys

import reactivex
from reactivex import operators as ops

from engine.api import I
from engine.lib import Injected, Recorder, SRC_ERR, make_scheduler, messages, on_completed, on_error, on_next, rec_tuples
from harness import catalog
from harness.catalog import Box, Ctx, E, element

OTHER_ERR = Injected("other-source-error")
INNER_ERR = Injected("inner-source-error")


def params(n_key="N", vmax=3, gmax=2, with_k=False, extra=False):
    """symbolic parameter declarations shared by the pipeline harnesses; sizes depend on the entry's tags"""
    def has(tag):
        return lambda i: tag in E[i["op"]]["tags"]

    def gm(i):
        return 1 if i["op"] in NARROW else gmax

    d = dict(
        v=I(0, vmax, n=lambda i: i[n_key]), g=I(0, gm, n=lambda i: i[n_key]), tg=I(0, gm), term=I(0, 2),
        p=I(0, 2), m=I(1, 2),
        w=I(0, 1, n=lambda i: i.get("M", 1) if "other" in E[i["op"]]["tags"] else 0),
        h=I(0, gmax, n=lambda i: i.get("M", 1) if "other" in E[i["op"]]["tags"] else 0),
        term2=I(0, lambda i: 2 if "other" in E[i["op"]]["tags"] else 0),
        jg=I(0, lambda i: (1 if i["op"] in NARROW else 2) if "inner" in E[i["op"]]["tags"] else 0),
        jterm=I(0, lambda i: 2 if "inner" in E[i["op"]]["tags"] else 0),
    )
    if with_k:
        d["k"] = I(0, lambda i: (i[n_key] + 2) if "cb" in E[i["op"]]["tags"] else 0)
    if extra:
        d["extra"] = I(0, 2)
    return d


HORIZON = 235  # the test scheduler disposes the subscription here: bounds periodic timers on never-ending sources
QUAD = {"join", "group_join", "buffer_toggle", "window_toggle"}
NARROW = {"window_when", "buffer_when"}  # repeated closings: gaps and closing delay restricted to [0,1]
HEAVY = {"buffer_with_time", "window_with_time", "buffer_with_time_or_count", "window_with_time_or_count", "group_by_until", "group_join", "join", "buffer_toggle", "window_toggle"}


class Run:
    pass


def main_messages(a, inst, box=False, base=210, extra=0):
    kind = E[inst["op"]].get("elem")
    vals = [element(kind, v) for v in a.v]
    if box:
        vals = [Box(v) for v in vals]
    msgs = messages(vals, a.g, a.term, a.tg, base=base)
    if extra:
        last = msgs[-1].time if msgs else base
        if extra == 1:
            msgs.append(on_next(last + 1, vals[0] if vals else 0))
        else:
            msgs.append(on_completed(last + 1))
    return msgs


def build(a, inst, sch, *, hot=True, box=False, k=0, extra=0, base=210):
    """returns (ctx, main source, [all test sources])"""
    tags = E[inst["op"]]["tags"]
    srcs = []
    mk = sch.create_hot_observable if hot else sch.create_cold_observable
    b = base if hot else 2  # cold timelines start close to the subscription so that small durations interact with them
    main = mk(main_messages(a, inst, box, b, extra))
    srcs.append(("main", main))
    others, inners = [], []
    if "other" in tags:
        wv = [50 + x for x in a.w]
        if box:
            wv = [Box(x) for x in wv]
        o = mk(messages(wv, a.h, a.term2, 1, base=(b - 5 if hot else 1), err=OTHER_ERR))
        others.append(o)
        srcs.append(("other", o))
    if "inner" in tags:
        i1 = [on_next(a.jg, Box(70) if box else 70)]
        i2 = [on_next(1, Box(80) if box else 80), on_next(1 + a.jg, Box(81) if box else 81)]
        if a.jterm == 1:
            i1.append(on_completed(a.jg + 1))
            i2.append(on_completed(2 + a.jg))
        elif a.jterm == 2:
            i1.append(on_error(a.jg + 1, INNER_ERR))
            i2.append(on_completed(2 + a.jg))
        c1, c2 = sch.create_cold_observable(i1), sch.create_cold_observable(i2)
        inners = [c1, c2]
        srcs += [("inner1", c1), ("inner2", c2)]
    ctx = Ctx(sch, p=a.p, m=a.m, k=k, others=others, inners=inners)
    return ctx, main, srcs


def run(a, inst, *, hot=True, box=False, k=0, extra=0, disposed=None, op=None):
    sch = make_scheduler()
    ctx, main, srcs = build(a, inst, sch, hot=hot, box=box, k=k, extra=extra)
    r = Run()
    r.sch, r.ctx, r.srcs = sch, ctx, srcs
    r.escaped = None
    operator = op(ctx) if op else E[inst["op"]]["build"](ctx)
    try:
        res = sch.start(lambda: main.pipe(operator), disposed=disposed if disposed is not None else HORIZON)
        r.events = rec_tuples(res.messages)
    except Injected as e:  # a user-callback exception escaping the scheduler run
        r.escaped = e
        r.events = []
    return r


def subs_log(r):
    out = []
    for name, s in r.srcs:
        for x in s.subscriptions:
            out.append((name, x.subscribe, x.unsubscribe))
    return out


def instances(tier, nmax_quick=2, nmax_thorough=3, nmin=0, tagsel=None, names=None, lean=False):
    nmax = nmax_quick if tier == "quick" else nmax_thorough
    out = []
    for name in (names or catalog.names()):
        if tagsel and not tagsel(E[name]["tags"]):
            continue
        for n in range(nmin, nmax + 1):
            if tier == "quick" and n > max(nmin, 1) and (name in HEAVY or (lean and E[name]["tags"] & {"inner", "other"})):
                continue  # several symbolic sources: N = 2 needs more than the quick per-instance budget
            if tier == "quick" and lean and name in QUAD:
                continue  # three symbolic sources plus the property's own symbolic parameter: thorough tier only
            out.append({"op": name, "N": n})
    return out
