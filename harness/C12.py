"""C12 — switching forwards only the latest inner sequence."""
import itertools

import reactivex
from reactivex import operators as ops

from engine.api import I, harness, cover
from engine.lib import rec_tuples
from engine.lib import make_scheduler
from harness.C11 import OUT_ERR, build

SWITCHES = {
    "switch_latest": lambda f: reactivex.compose(ops.map(f), ops.switch_latest()),
    "switch_map": lambda f: ops.switch_map(f),
    "switch_map_indexed": lambda f: ops.switch_map_indexed(lambda x, i: f(x)),
    "flat_map_latest": lambda f: ops.flat_map_latest(f),
}


def _inst(tier):
    out = []
    for name in SWITCHES:
        shapes = ((1, 1), (1, 2), (2, 1)) if tier == "quick" else ((1, 1), (1, 2), (2, 1), (2, 2), (3, 1), (3, 2))
        for K, n in shapes:
            for ot in (0, 1, 2):
                for it in itertools.product((0, 1, 2), repeat=K):
                    out.append({"op": name, "K": K, "n": n, "ot": ot, "it": list(it), "sync": None})
        for ot in (0, 1):
            for it in ((1, 1), (1, 2), (2, 1), (0, 1)):
                for sy in ((1, 0), (0, 1), (1, 1)):
                    out.append({"op": name, "K": 2, "n": 1, "ot": ot, "it": list(it), "sync": list(sy)})
    return out


@harness(instances=_inst, og=I(0, 2, n=lambda i: i["K"]), otg=I(0, 3), ig=I(0, 2, n=lambda i: i["K"] * i["n"]),
         itg=I(0, 1, n=lambda i: i["K"]), timeout=(120, 900))
def h_switch(a, inst):
    a.oterm, a.iterm = inst["ot"], inst["it"]
    sch = make_scheduler()
    K, n = inst["K"], inst["n"]
    outer, inners, T, Tt, desc = build(sch, a, K, n, inst.get("sync"))
    seq = [0]
    order = {}  # inner index -> [subscribe sequence number, dispose sequence number]

    def logged(j):
        from reactivex.disposable import Disposable

        def subscribe(observer, scheduler=None):
            seq[0] += 1
            order[j] = [seq[0], None]
            d = inners[j].subscribe(observer, scheduler=scheduler)

            def dispose():
                if order[j][1] is None:
                    seq[0] += 1
                    order[j][1] = seq[0]
                d.dispose()
            return Disposable(dispose)
        return reactivex.Observable(subscribe)

    res = sch.start(lambda: outer.pipe(SWITCHES[inst["op"]](logged)), disposed=300)
    got = rec_tuples(res.messages)
    INF = 10 ** 9
    # reference (from the statement): inner j is the latest during [T_j, T_{j+1}); a notification of inner j stamped exactly
    # T_{j+1} comes after the outer element (the hot outer's messages were scheduled first) and is therefore stale
    exp = []
    t_end, kind_end, payload = INF, None, None
    if a.oterm == 2:
        t_end, kind_end, payload = Tt, "E", OUT_ERR
    for j in range(K):
        ev, term, rt, err = desc[j]
        nxt = T[j + 1] if j + 1 < K else INF
        if inst.get("sync") and inst["sync"][j]:
            nxt = INF if j + 1 >= K else T[j + 1] + 1  # synchronous inner: everything happens inside its subscription
        for r, v in ev:
            t = T[j] + r
            if t < nxt:
                exp.append((t, v))
        if term == 2 and T[j] + rt < nxt and T[j] + rt < t_end:
            t_end, kind_end, payload = T[j] + rt, "E", err
    if a.oterm == 1:
        if K == 0:
            td = Tt
        elif desc[K - 1][1] == 1:
            td = max(Tt, T[K - 1] + desc[K - 1][2])
        else:
            td = None
        if td is not None and td < t_end:
            t_end, kind_end, payload = td, "C", None
    exp_elems = [(t, v) for t, v in exp if t < t_end or (t == t_end and kind_end == "C")]
    # elements stamped exactly with an *error* instant may or may not precede it
    may = [(t, v) for t, v in exp if t == t_end and kind_end == "E"]
    gv = [(t, p) for t, k, p in got if k == "N"]
    core = [e for e in gv if not (e in may)]
    if core != [e for e in exp_elems if e not in may]:
        return False
    for e in gv:
        if e in may and gv.count(e) > 1:
            return False
    gt = [(t, k, p) for t, k, p in got if k != "N"]
    if kind_end is None:
        if gt:
            return False
    else:
        if len(gt) != 1 or gt[0][0] != t_end or gt[0][1] != kind_end or got[-1][1] != kind_end:
            return False
        if kind_end == "E" and gt[0][2] is not payload:
            # two different errors in the same instant: either may win
            others = [desc[j][3] for j in range(K) if desc[j][1] == 2 and T[j] + desc[j][2] == t_end] + ([OUT_ERR] if a.oterm == 2 and Tt == t_end else [])
            if not any(gt[0][2] is o for o in others):
                return False
    # subscription logs: inner j subscribed at T_j (if the output had not ended) and released when the next inner arrives,
    # when it terminates itself, or when the output ends -- whichever comes first
    for j in range(K):
        log = [(s.subscribe, s.unsubscribe) for s in inners[j].subscriptions]
        if T[j] < t_end:
            ev, term, rt, err = desc[j]
            nxt = T[j + 1] if j + 1 < K else INF
            own = T[j] + rt if term != 0 else INF
            if len(log) != 1 or log[0][0] != T[j] or log[0][1] != min(nxt, own, t_end, 300):
                return False
        elif T[j] > t_end and log:
            return False
    # "unsubscribe the previous inner as soon as a new inner arrives": the release of inner j precedes the subscription of
    # inner j+1 (never two inners subscribed at once), observed by sequence numbers since both carry the same time stamp
    for j in range(K - 1):
        if j in order and (j + 1) in order:
            if order[j][1] is None or order[j][1] > order[j + 1][0]:
                return False
    cover("ran")
    return True


# ------------------------------------------------------------------ feedback: the consumer switches while an inner is still emitting
from reactivex.subject import Subject  # noqa: E402
from engine.lib import Injected  # noqa: E402

FB_PIPES = {
    "switch_latest": lambda outer, inners: outer.pipe(ops.map(lambda k: inners[k]), ops.switch_latest()),
    "switch_map": lambda outer, inners: outer.pipe(ops.switch_map(lambda k: inners[k])),
    "switch_map_indexed": lambda outer, inners: outer.pipe(ops.switch_map_indexed(lambda k, i: inners[k])),
    "flat_map_latest": lambda outer, inners: outer.pipe(ops.flat_map_latest(lambda k: inners[k])),
}


@harness(instances=lambda tier: [{"pipe": p} for p in FB_PIPES], aterm=I(0, 2), order=I(0, 1), nb=I(0, 2), bterm=I(0, 2), timeout=(60, 600), stock=False)
def h_feedback(a, inst):
    """inner A emits a1 synchronously while it is being subscribed; the consumer reacts to a1 by pushing inner B (a Subject) into
    the outer, so A is replaced in the middle of its own emission; A then completes / errors / goes on (it is stale by now); the
    outer completes before or after B emits.  Only B counts from then on: the result ends when B and the outer have ended"""
    outer, b = Subject(), Subject()
    got = []
    ea, eb = Injected("a"), Injected("b")

    def sub_a(observer, scheduler=None):
        observer.on_next("a1")
        observer.on_next("a2")  # stale already: must be dropped
        if a.aterm == 1:
            observer.on_completed()
        elif a.aterm == 2:
            observer.on_error(ea)

    inners = {"A": reactivex.create(sub_a), "B": b}

    def on_next(x):
        got.append(("N", x))
        if x == "a1":
            outer.on_next("B")

    FB_PIPES[inst["pipe"]](outer, inners).subscribe(on_next, lambda e: got.append(("E", e)), lambda: got.append(("C",)))
    outer.on_next("A")
    if a.order == 0:
        outer.on_completed()
    for i in range(a.nb):
        b.on_next(10 + i)
    if a.order == 1:
        outer.on_completed()
    if a.bterm == 1:
        b.on_completed()
    elif a.bterm == 2:
        b.on_error(eb)
    exp = [("N", "a1")] + [("N", 10 + i) for i in range(a.nb)]
    if a.bterm == 1:
        exp.append(("C",))
    elif a.bterm == 2:
        exp.append(("E", eb))
    cover("ran")
    return got == exp


ENCODED = ["reactivex/operators/_switchlatest.py", "reactivex/operators/__init__.py"]
BOUNDS = {"quick": "outer hot timeline of 1..2 inner sources (1 element each, 2 for a single inner; thorough: 2x2, 3x1, 3x2; first element 0..2 ticks after subscription), outer "
                   "gaps in [0,2] so lifetimes overlap, outer and inner terminal kinds never/completed/error (every combination is "
                   "its own instance), inners that emit and terminate synchronously inside subscribe(); switch_latest, switch_map, "
                   "switch_map_indexed, flat_map_latest", "thorough": "up to 3 inners with 2 elements"}
ASSUMES = ["Tick/Span time stub", "an inner notification stamped exactly with the arrival instant of the next inner is stale (the hot "
           "outer's message was scheduled first)", "an element stamped with the instant of a terminating error may or may not precede it"]
MANIFEST = {
    "text": "Bounded symbolic model checking: outer and inner timelines are solver variables, terminal kinds enumerated; forwarded "
            "elements, the terminating notification and every inner's subscription interval (released as soon as a newer inner "
            "arrives) must match the rule of the statement.",
    "note": "<=2 inners (quick) / 3 (thorough).",
}
