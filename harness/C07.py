"""C07 — slicing an observable behaves like slicing a list."""
from reactivex import operators as ops

from engine.api import I, harness, known
from engine.lib import SRC_ERR, make_scheduler, messages, rec_tuples


def _inst(tier):
    nmax = 3 if tier == "quick" else 5
    out = [{"form": "index", "N": n, "sc": "any", "tc": "any"} for n in range(nmax + 1)]
    # split on the sign class of start and stop (neg / nonneg / None): the discrete split that spreads work over processes
    for f in ("getitem", "ops"):
        for n in range(nmax + 1):
            for sc in ("neg", "pos", "none"):
                for tc in ("neg", "pos", "none"):
                    out.append({"form": f, "N": n, "sc": sc, "tc": tc})
    return out


def _lim(i):
    return i["N"] + 2


def _lo(i, c):
    return {"neg": -_lim(i), "pos": 0, "none": _lim(i) + 1, "any": -_lim(i)}[c]


def _hi(i, c):
    return {"neg": -1, "pos": _lim(i), "none": _lim(i) + 1, "any": _lim(i) + 1}[c]


# start/stop: [-(N+2), N+2], and N+3 stands for None; step: [1, N+1], 0 stands for None
@harness(instances=_inst, term=I(1, 2),
         start=I(lambda i: _lo(i, i["sc"]), lambda i: _hi(i, i["sc"])),
         stop=I(lambda i: _lo(i, i["tc"]) if i["form"] != "index" else 0, lambda i: _hi(i, i["tc"]) if i["form"] != "index" else 0),
         step=I(0, lambda i: i["N"] + 1 if i["form"] != "index" else 0))
def h_slice(a, inst):
    n = inst["N"]
    none = n + 3
    sch = make_scheduler()
    xs = [10 + k for k in range(n)]  # distinct concrete values: slicing is position-based (falsy values: C08)
    g = [1] * n
    src = sch.create_hot_observable(messages(xs, g, a.term, 1))
    form = inst["form"]
    if form == "index":
        if a.start == none:
            return True
        i = a.start
        build = lambda: src[i]  # noqa: E731
        if i >= 0:
            exp = xs[i:i + 1]
        else:
            # statement: source[i] is "the integer-index form"; for negative i we accept exactly the element
            # list(source)[i] when it exists (the natural reading), nothing otherwise
            exp = [xs[i]] if -i <= n else []
    else:
        start = None if a.start == none else a.start
        stop = None if a.stop == none else a.stop
        step = None if a.step == 0 else a.step
        if form == "getitem":
            build = lambda: src[start:stop:step]  # noqa: E731
        else:
            build = lambda: src.pipe(ops.slice(start, stop, step))  # noqa: E731
        exp = xs[start:stop:step]
    res = sch.start(build)
    got = rec_tuples(res.messages)
    vals = [p for _, k, p in got if k == "N"]
    kinds = [k for _, k, _ in got]
    if a.term == 2:
        # errors pass through; elements emitted before the error must be a prefix of the expected slice
        # unless the slice completed early (e.g. take reached its count)
        if kinds and kinds[-1] == "C":
            return vals == exp
        return bool(kinds) and kinds[-1] == "E" and got[-1][2] is SRC_ERR and vals == exp[: len(vals)]
    return vals == exp and kinds == ["N"] * len(exp) + ["C"]


ENCODED = ["reactivex/operators/_slice.py", "reactivex/observable/observable.py", "reactivex/operators/_take.py",
           "reactivex/operators/_skip.py", "reactivex/operators/_takelast.py", "reactivex/operators/_skiplast.py",
           "reactivex/operators/_filter.py"]
BOUNDS = {"quick": "input length N<=3 (distinct concrete values); start, stop in [-(N+2), N+2] or None; step in [1, N+1] or None; terminal "
                   "completed/error; forms source[a:b:c], ops.slice(a,b,c), source[i]",
          "thorough": "N<=5"}
ASSUMES = ["emission times are not part of this property (observe_at: emitted elements and termination)",
           "source[i] with negative i: the element list(source)[i] when it exists, else nothing",
           "with an erroring source: either the slice had already completed with the full expected content, or the error is "
           "forwarded after a prefix of the expected content"]
MANIFEST = {
    "text": "Bounded symbolic model checking: start, stop, step, the element values and the terminal kind are solver variables; the "
            "real slice_/__getitem__ pipeline output is compared with Python list slicing; all paths exhausted for each input length.",
    "note": "N<=3 quick / 5 thorough; Tick stub; emission times not checked (not in the statement).",
}
