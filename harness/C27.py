"""C27 — RefCountDisposable releases its resource only after all dependents.  Histories (XH) + interleavings (GT)."""
import reactivex.disposable.disposable as m_disp
import reactivex.disposable.refcountdisposable as m_rc
from reactivex.disposable import RefCountDisposable

from engine import gate
from engine.api import I, harness, cover


class Res:
    def __init__(self):
        self.count = 0

    def dispose(self):
        self.count += 1


def concretize(x, n):
    for c in range(n):
        if x == c:
            return c
    return n - 1


# op codes: 0 get a dependent ; 1..3 dispose dependent j (the j-th handed out, if any) ; 4 dispose primary
NOPS = 5


@harness(instances=lambda tier: [{"L": 5 if tier == "quick" else 7, "first": f} for f in (0, 4)],
         op=I(0, NOPS - 1, n=lambda i: i["L"] - 1), timeout=(120, 900), stock=False)
def h_history(a, inst):
    res = Res()
    r = RefCountDisposable(res)
    deps = []  # (object, live?) in the order handed out
    model_live = []  # per dependent: counted (True) / inert or already disposed (False)
    primary = False
    released = False
    seq = [inst["first"]] + [concretize(x, NOPS) for x in a.op]
    for o in seq:
        if o == 0:
            d = r.disposable
            deps.append(d)
            model_live.append(not released)  # dependents requested after the release are inert
        elif o in (1, 2, 3):
            j = o - 1
            if j < len(deps):
                deps[j].dispose()
                model_live[j] = False
        else:
            r.dispose()
            primary = True
        # the resource is released exactly when the primary is disposed and no counted dependent is outstanding
        if primary and not any(model_live):
            released = True
        if res.count != (1 if released else 0):
            return False
        if r.is_disposed != released:
            return False
    cover("ran")
    return True


# ------------------------------------------------------------------ interleavings (GT)
PROGRAMS = [
    # (thread A ops, thread B ops); ops: ("dep", j) dispose dependent j obtained before the threads start, ("primary",),
    # ("get",) request a new dependent and dispose it at once
    ([("dep", 0)], [("primary",)]),
    ([("dep", 0), ("dep", 0)], [("primary",)]),
    ([("dep", 0)], [("dep", 1), ("primary",)]),
    ([("dep", 0)], [("dep", 0)]),
    ([("get",)], [("primary",)]),
    ([("primary",)], [("primary",), ("dep", 0)]),
    ([("dep", 0), ("get",)], [("primary",)]),
    # the same with a single outstanding dependent (its release takes the count to zero while the primary is being disposed)
    ([("dep", 0)], [("primary",)], 1),
    ([("dep", 0), ("dep", 0)], [("primary",)], 1),
    ([("get",), ("dep", 0)], [("primary",)], 1),
]


def _ginst(tier):
    out = []
    for pi in range(len(PROGRAMS)):
        P = 1 if tier == "quick" and pi not in (0, 1) else 2
        chunks = [(0, 80)] if P == 1 else [(0, 9), (10, 19), (20, 29), (30, 80)]
        for lo, hi in chunks:
            out.append({"prog": pi, "P": P, "lo": lo, "hi": hi})
    return out


@harness(instances=_ginst, p0=I(lambda i: i["lo"], lambda i: i["hi"]), pos=I(0, 80, n=lambda i: i["P"] - 1), tgt=I(0, 1, n=lambda i: i["P"]),
         timeout=(240, 1800), stock=False)
def h_interleave(a, inst):
    prog = PROGRAMS[inst["prog"]]
    pa, pb = prog[0], prog[1]
    ndeps = prog[2] if len(prog) > 2 else 2
    pre = [a.p0] + list(a.pos)
    preempts = [(pre[i], a.tgt[i]) for i in range(inst["P"])]
    with gate.install(m_rc, m_disp):
        gate.watch(m_rc)
        g = gate.Gate()
        res = Res()
        r = RefCountDisposable(res)
        deps = [r.disposable for _ in range(ndeps)]
        early = []  # resource released while a counted dependent was still outstanding / primary not disposed

        def mk(prog):
            def run():
                for op in prog:
                    if op[0] == "dep":
                        deps[op[1]].dispose()
                    elif op[0] == "primary":
                        r.dispose()
                    else:
                        d = r.disposable
                        d.dispose()
            return run

        g.spawn(mk(pa))
        g.spawn(mk(pb))
        out = g.run(preempts)
        if out != "done" or g.errors:
            return False
        if res.count > 1:
            return False
        # complete the history on the main thread: dispose everything; the resource must then have been released exactly once
        used = {op[1] for op in pa + pb if op[0] == "dep"}
        primary_done = any(op[0] == "primary" for op in pa + pb)
        all_deps_done = used == set(range(ndeps))
        if res.count == 1 and not (primary_done and all_deps_done):
            return False  # released although the primary or a handed-out dependent is still outstanding
        if primary_done and all_deps_done and res.count != 1:
            return False
        for d in deps:
            d.dispose()
        r.dispose()
        cover("ran")
        return res.count == 1 and r.is_disposed


ENCODED = ["reactivex/disposable/refcountdisposable.py", "reactivex/disposable/disposable.py"]
BOUNDS = {"quick": "every call history of length 5 over {get dependent, dispose dependent 1..3 (also twice), dispose primary}; "
                   "interleavings: 10 two-thread programs over one or two dependents and the primary, up to 2 preemptions (1 for most programs "
                   "in the quick tier) at instruction-level yield points",
          "thorough": "history length 7; every program with 2 preemptions"}
ASSUMES = ["gate-aware lock shims in refcountdisposable / disposable", "more than 2 preemptions and more than 2 threads are outside",
           "the 'abstract model over unbounded histories' part of the quantifier is not claimed beyond the bounded histories"]
MANIFEST = {
    "engine": "XH+GT",
    "text": "Bounded symbolic model checking: call histories (solver-chosen op codes) against the reference rule 'released exactly when "
            "the primary and every counted dependent are disposed'; gate-serialised real threads with symbolic preemption schedules for "
            "the concurrent calls (never released twice, never early, always released once everything is disposed).",
    "note": "history length 5/7; 2 threads, P<=2.",
}
