"""C06 — aggregating operators match their reference semantics."""
import functools

from reactivex import operators as ops
from reactivex.internal.exceptions import SequenceContainsNoElementsError
from reactivex.internal.utils import NotSet

from engine.api import I, harness
from engine.lib import SRC_ERR, falsy, make_scheduler, messages, rec_tuples, same, same_events, times_from_gaps

NOELEM = SequenceContainsNoElementsError


def _final(val_fn, xs, term, tt, empty_err=False):
    """value emitted at completion; empty_err: empty input -> SequenceContainsNoElementsError"""
    if term == 1:
        if empty_err and not xs:
            return [(tt, "E", NOELEM)]
        return [(tt, "N", val_fn(xs)), (tt, "C", None)]
    if term == 2:
        return [(tt, "E", SRC_ERR)]
    return []


def _decide_at_first(xs, ts, pred, hit_val, miss_val, term, tt, miss_err=False):
    """short-circuit: first element with pred -> emit hit_val(x) at its time; else miss at completion"""
    for x, t in zip(xs, ts):
        if pred(x):
            return [(t, "N", hit_val(x)), (t, "C", None)]
    if term == 1:
        if miss_err:
            return [(tt, "E", NOELEM)]
        return [(tt, "N", miss_val), (tt, "C", None)]
    if term == 2:
        return [(tt, "E", SRC_ERR)]
    return []


def _extreme(xs, key, want_max):
    ks = [key(x) for x in xs]
    best = max(ks) if want_max else min(ks)
    return [x for x, k in zip(xs, ks) if k == best]


def _single(xs, ts, term, tt, pred, has_default, default):
    seen = 0
    for x, t in zip(xs, ts):
        if pred(x):
            seen += 1
            if seen == 2:
                return [(t, "E", Exception)]
    if term == 1:
        if seen == 0:
            if has_default:
                return [(tt, "N", default), (tt, "C", None)]
            return [(tt, "E", NOELEM)]
        return [(tt, "N", [x for x in xs if pred(x)][0]), (tt, "C", None)]
    if term == 2:
        return [(tt, "E", SRC_ERR)]
    return []


TRUE = lambda x: True  # noqa: E731

# name -> (build(p, m, d), ref(xs, ts, term, tt, p, m, d))   d = a value from the falsy domain (defaults / seeds)
OPS = {
    "reduce": (lambda p, m, d: ops.reduce(lambda a, x: a * 2 + x),
               lambda xs, ts, term, tt, p, m, d: _final(lambda v: functools.reduce(lambda a, x: a * 2 + x, v), xs, term, tt, True)),
    "reduce_seed": (lambda p, m, d: ops.reduce(lambda a, x: a * 2 + x, p),
                    lambda xs, ts, term, tt, p, m, d: _final(lambda v: functools.reduce(lambda a, x: a * 2 + x, v, p), xs, term, tt)),
    "reduce_seed_none": (lambda p, m, d: ops.reduce(lambda a, x: (5 if a is None else a * 2) + x, None),
                         lambda xs, ts, term, tt, p, m, d: _final(lambda v: functools.reduce(lambda a, x: (5 if a is None else a * 2) + x, v, None), xs, term, tt)),
    "count": (lambda p, m, d: ops.count(), lambda xs, ts, term, tt, p, m, d: _final(len, xs, term, tt)),
    "count_pred": (lambda p, m, d: ops.count(lambda x: x >= p),
                   lambda xs, ts, term, tt, p, m, d: _final(lambda v: len([x for x in v if x >= p]), xs, term, tt)),
    "sum": (lambda p, m, d: ops.sum(), lambda xs, ts, term, tt, p, m, d: _final(sum, xs, term, tt)),
    "sum_key": (lambda p, m, d: ops.sum(lambda x: x * p),
                lambda xs, ts, term, tt, p, m, d: _final(lambda v: sum(x * p for x in v), xs, term, tt)),
    "average": (lambda p, m, d: ops.average(lambda x: x * 2),
                lambda xs, ts, term, tt, p, m, d: _final(lambda v: sum(x * 2 for x in v) / len(v), xs, term, tt, True)),
    "min": (lambda p, m, d: ops.min(), lambda xs, ts, term, tt, p, m, d: _final(min, xs, term, tt, True)),
    "max": (lambda p, m, d: ops.max(), lambda xs, ts, term, tt, p, m, d: _final(max, xs, term, tt, True)),
    "min_cmp": (lambda p, m, d: ops.min(lambda a, b: a % m - b % m),
                lambda xs, ts, term, tt, p, m, d: _final(lambda v: _extreme(v, lambda x: x % m, False)[0], xs, term, tt, True)),
    "max_cmp": (lambda p, m, d: ops.max(lambda a, b: a % m - b % m),
                lambda xs, ts, term, tt, p, m, d: _final(lambda v: _extreme(v, lambda x: x % m, True)[0], xs, term, tt, True)),
    "min_by": (lambda p, m, d: ops.min_by(lambda x: x % m),
               lambda xs, ts, term, tt, p, m, d: _final(lambda v: _extreme(v, lambda x: x % m, False) if v else [], xs, term, tt)),
    "max_by": (lambda p, m, d: ops.max_by(lambda x: x % m),
               lambda xs, ts, term, tt, p, m, d: _final(lambda v: _extreme(v, lambda x: x % m, True) if v else [], xs, term, tt)),
    "to_list": (lambda p, m, d: ops.to_list(), lambda xs, ts, term, tt, p, m, d: _final(list, xs, term, tt)),
    "to_iterable": (lambda p, m, d: ops.to_iterable(), lambda xs, ts, term, tt, p, m, d: _final(list, xs, term, tt)),
    "to_set": (lambda p, m, d: ops.to_set(), lambda xs, ts, term, tt, p, m, d: _final(set, xs, term, tt)),
    "to_dict": (lambda p, m, d: ops.to_dict(lambda x: x % m, lambda x: x + p),
                lambda xs, ts, term, tt, p, m, d: _final(lambda v: {x % m: x + p for x in v}, xs, term, tt)),
    "to_dict_nomap": (lambda p, m, d: ops.to_dict(lambda x: x % m),
                      lambda xs, ts, term, tt, p, m, d: _final(lambda v: {x % m: x for x in v}, xs, term, tt)),
    "first": (lambda p, m, d: ops.first(),
              lambda xs, ts, term, tt, p, m, d: _decide_at_first(xs, ts, TRUE, lambda x: x, None, term, tt, True)),
    "first_pred": (lambda p, m, d: ops.first(lambda x: x >= p),
                   lambda xs, ts, term, tt, p, m, d: _decide_at_first(xs, ts, lambda x: x >= p, lambda x: x, None, term, tt, True)),
    "first_or_default": (lambda p, m, d: ops.first_or_default(None, d),
                         lambda xs, ts, term, tt, p, m, d: _decide_at_first(xs, ts, TRUE, lambda x: x, d, term, tt)),
    "first_or_default_pred": (lambda p, m, d: ops.first_or_default(lambda x: x >= p, d),
                              lambda xs, ts, term, tt, p, m, d: _decide_at_first(xs, ts, lambda x: x >= p, lambda x: x, d, term, tt)),
    "last": (lambda p, m, d: ops.last(), lambda xs, ts, term, tt, p, m, d: _final(lambda v: v[-1], xs, term, tt, True)),
    "last_pred": (lambda p, m, d: ops.last(lambda x: x >= p),
                  lambda xs, ts, term, tt, p, m, d: _final(lambda v: v[-1], [x for x in xs if x >= p], term, tt, True)),
    "last_or_default": (lambda p, m, d: ops.last_or_default(d),
                        lambda xs, ts, term, tt, p, m, d: _final(lambda v: v[-1] if v else d, xs, term, tt)),
    "last_or_default_pred": (lambda p, m, d: ops.last_or_default(d, lambda x: x >= p),
                             lambda xs, ts, term, tt, p, m, d: _final(lambda v: v[-1] if v else d, [x for x in xs if x >= p], term, tt)),
    "single": (lambda p, m, d: ops.single(),
               lambda xs, ts, term, tt, p, m, d: _single(xs, ts, term, tt, TRUE, False, None)),
    "single_pred": (lambda p, m, d: ops.single(lambda x: x >= p),
                    lambda xs, ts, term, tt, p, m, d: _single(xs, ts, term, tt, lambda x: x >= p, False, None)),
    "single_or_default": (lambda p, m, d: ops.single_or_default(None, d),
                          lambda xs, ts, term, tt, p, m, d: _single(xs, ts, term, tt, TRUE, True, d)),
    "single_or_default_pred": (lambda p, m, d: ops.single_or_default(lambda x: x >= p, d),
                               lambda xs, ts, term, tt, p, m, d: _single(xs, ts, term, tt, lambda x: x >= p, True, d)),
    "all": (lambda p, m, d: ops.all(lambda x: x >= p),
            lambda xs, ts, term, tt, p, m, d: _decide_at_first(xs, ts, lambda x: not (x >= p), lambda x: False, True, term, tt)),
    "some": (lambda p, m, d: ops.some(),
             lambda xs, ts, term, tt, p, m, d: _decide_at_first(xs, ts, TRUE, lambda x: True, False, term, tt)),
    "some_pred": (lambda p, m, d: ops.some(lambda x: x >= p),
                  lambda xs, ts, term, tt, p, m, d: _decide_at_first(xs, ts, lambda x: x >= p, lambda x: True, False, term, tt)),
    "contains": (lambda p, m, d: ops.contains(p),
                 lambda xs, ts, term, tt, p, m, d: _decide_at_first(xs, ts, lambda x: x == p, lambda x: True, False, term, tt)),
    "contains_cmp": (lambda p, m, d: ops.contains(p, lambda a, b: (a - b) % m == 0),
                     lambda xs, ts, term, tt, p, m, d: _decide_at_first(xs, ts, lambda x: (x - p) % m == 0, lambda x: True, False, term, tt)),
    "is_empty": (lambda p, m, d: ops.is_empty(),
                 lambda xs, ts, term, tt, p, m, d: _decide_at_first(xs, ts, TRUE, lambda x: False, True, term, tt)),
}
USES_D = ("first_or_default", "first_or_default_pred", "last_or_default", "last_or_default_pred", "single_or_default",
          "single_or_default_pred")


def _instances(tier):
    nmax = 3 if tier == "quick" else 4
    out = []
    for op in OPS:
        for n in range(nmax + 1):
            if tier == "quick" and n == 3 and (op == "average" or (op in USES_D and op.endswith("_pred"))):
                continue  # 10 defaults x predicate threshold: N=3 needs > 60 s, thorough tier only
            out.append({"op": op, "N": n})
    return out


def concretize(x, lo, hi):
    """realise a bounded symbolic int by branching (one path per value)"""
    for c in range(lo, hi + 1):
        if x == c:
            return c
    return x


@harness(instances=_instances, v=I(0, 3, n=lambda i: i["N"]), g=I(0, 2, n=lambda i: i["N"]), tg=I(0, 2), term=I(0, 2),
         p=I(0, 3), m=I(1, 3), d=I(0, lambda i: 9 if i["op"] in USES_D else 0))
def h_aggregate(a, inst):
    build, ref = OPS[inst["op"]]
    sch = make_scheduler()
    xs = list(a.v)
    if inst["op"] == "average":  # float division on symbolic ints is inconclusive in CrossHair: realise the values
        xs = [concretize(x, 0, 3) for x in xs]
    ts = times_from_gaps(a.g)
    tt = (ts[-1] if ts else 210) + a.tg
    d = falsy(a.d) if inst["op"] in USES_D else None
    src = sch.create_hot_observable(messages(xs, a.g, a.term, a.tg))
    op = build(a.p, a.m, d)
    res = sch.start(lambda: src.pipe(op))
    got = rec_tuples(res.messages)
    exp = ref(xs, ts, a.term, tt, a.p, a.m, d)
    return same_events(got, exp)


# ------------------------------------------------------------------ scan (element-wise emission, seeds NotSet / None / int)
def _sinst(tier):
    return [{"seed": s, "N": n} for s in ("notset", "none", "int") for n in range(0, (3 if tier == "quick" else 4) + 1)]


@harness(instances=_sinst, v=I(0, 3, n=lambda i: i["N"]), g=I(0, 2, n=lambda i: i["N"]), tg=I(0, 2), term=I(0, 2), p=I(0, 3))
def h_scan(a, inst):
    sch = make_scheduler()
    xs = list(a.v)
    ts = times_from_gaps(a.g)
    tt = (ts[-1] if ts else 210) + a.tg
    src = sch.create_hot_observable(messages(xs, a.g, a.term, a.tg))
    if inst["seed"] == "notset":
        op = ops.scan(lambda acc, x: acc * 2 + x)
        accs, cur, has = [], None, False
        for x in xs:
            cur = (cur * 2 + x) if has else x
            has = True
            accs.append(cur)
    elif inst["seed"] == "none":
        op = ops.scan(lambda acc, x: (5 if acc is None else acc * 2) + x, None)
        accs, cur = [], None
        for x in xs:
            cur = (5 if cur is None else cur * 2) + x
            accs.append(cur)
    else:
        op = ops.scan(lambda acc, x: acc * 2 + x, a.p)
        accs, cur = [], a.p
        for x in xs:
            cur = cur * 2 + x
            accs.append(cur)
    res = sch.start(lambda: src.pipe(op))
    exp = [(t, "N", v) for t, v in zip(ts, accs)]
    if a.term == 1:
        exp.append((tt, "C", None))
    elif a.term == 2:
        exp.append((tt, "E", SRC_ERR))
    return same_events(rec_tuples(res.messages), exp)


# ------------------------------------------------------------------ sequence_equal, both argument kinds
def _qinst(tier):
    nm = 2 if tier == "quick" else 3
    out = []
    for kind in ("iterable", "observable"):
        for n1 in range(nm + 1):
            for n2 in range(nm + 1):
                if tier == "quick" and kind == "observable" and n1 + n2 > 2:
                    continue  # two symbolic hot timelines: > 60 s, thorough tier only
                out.append({"kind": kind, "N": n1, "M": n2, "_timeout": 120 if tier == "quick" else 1200})
    return out


def _seq_candidates(xs, t1, term1, tt1, ys, t2, term2, tt2, eq):
    """all deciding events as (time, outcome); the operator must report one of the earliest"""
    c = []
    n1, n2 = len(xs), len(ys)
    for i in range(min(n1, n2)):
        if not eq(xs[i], ys[i]):
            c.append((max(t1[i], t2[i]), ("N", False)))
            break
    if term1 == 2:
        c.append((tt1, ("E", None)))
    if term2 == 2:
        c.append((tt2, ("E", None)))
    if term1 == 1 and n2 > n1:
        c.append((max(tt1, t2[n1]), ("N", False)))
    if term2 == 1 and n1 > n2:
        c.append((max(tt2, t1[n2]), ("N", False)))
    if term1 == 1 and term2 == 1 and n1 == n2:
        c.append((max(tt1, tt2), ("N", True)))
    return c


@harness(instances=_qinst, v=I(0, 2, n=lambda i: i["N"]), g=I(0, 2, n=lambda i: i["N"]), tg=I(0, 2), term=I(0, 2),
         w=I(0, 2, n=lambda i: i["M"]), h=I(0, 2, n=lambda i: i["M"]), th=I(0, 2),
         term2=I(0, lambda i: 2 if i["kind"] == "observable" else 0), m=I(1, 2))
def h_sequence_equal(a, inst):
    sch = make_scheduler()
    xs, ys = list(a.v), list(a.w)
    t1 = times_from_gaps(a.g)
    tt1 = (t1[-1] if t1 else 210) + a.tg
    src = sch.create_hot_observable(messages(xs, a.g, a.term, a.tg))
    if a.m == 1:
        cmp, eq = None, (lambda p, q: p == q)
    else:
        cmp = eq = lambda p, q: (p - q) % 2 == 0
    if inst["kind"] == "iterable":
        second = ys
        t2 = [200] * len(ys)
        term2, tt2 = 1, 200
    else:
        t2 = times_from_gaps(a.h)
        tt2 = (t2[-1] if t2 else 210) + a.th
        term2 = a.term2
        second = sch.create_hot_observable(messages(ys, a.h, a.term2, a.th, err=SRC_ERR))
    res = sch.start(lambda: src.pipe(ops.sequence_equal(second, cmp) if cmp else ops.sequence_equal(second)))
    got = rec_tuples(res.messages)
    cands = _seq_candidates(xs, t1, a.term, tt1, ys, t2, term2, tt2, eq)
    if not cands:
        return got == []
    t_first = min(t for t, _ in cands)
    for t, (k, val) in cands:
        if t != t_first:
            continue
        if k == "E":
            if len(got) == 1 and got[0][0] == t and got[0][1] == "E" and got[0][2] is SRC_ERR:
                return True
        else:
            if len(got) == 2 and got[0][0] == t and got[0][1] == "N" and got[0][2] is val and got[1][0] == t and got[1][1] == "C":
                return True
    return False


ENCODED = ["reactivex/operators/_reduce.py", "reactivex/operators/_scan.py", "reactivex/operators/_count.py",
           "reactivex/operators/_sum.py", "reactivex/operators/_average.py", "reactivex/operators/_minby.py",
           "reactivex/operators/_maxby.py", "reactivex/operators/_min.py", "reactivex/operators/_max.py",
           "reactivex/operators/_toiterable.py", "reactivex/operators/_toset.py", "reactivex/operators/_todict.py",
           "reactivex/operators/_firstordefault.py", "reactivex/operators/_first.py", "reactivex/operators/_lastordefault.py",
           "reactivex/operators/_last.py", "reactivex/operators/_singleordefault.py", "reactivex/operators/_single.py",
           "reactivex/operators/_some.py", "reactivex/operators/_all.py", "reactivex/operators/_contains.py",
           "reactivex/operators/_isempty.py", "reactivex/operators/_sequenceequal.py"]
BOUNDS = {"quick": "N<=3 elements, values [0,3], gaps [0,2], terminal none/completed/error, p in [0,3], m in [1,3], defaults/seeds "
                   "from the 10-value falsy domain; sequence_equal: both sources N<=2, values [0,2]",
          "thorough": "N<=4; sequence_equal N<=3"}
ASSUMES = ["Tick/Span time stub (DESIGN §2.1); samples re-run on the stock TestScheduler",
           "same-instant ties between the two sequence_equal sources: any deciding event at the earliest deciding instant is accepted",
           "average: exact rational inputs only (ints), no float rounding claim"]
MANIFEST = {
    "text": "Bounded symbolic model checking of 37 aggregate forms + scan (3 seed kinds) + sequence_equal (iterable and observable "
            "second): values, gaps, terminal kind/time, thresholds, moduli, defaults are solver variables; results, termination and "
            "emission time compared with functools/itertools-style reference computations; all paths exhausted per instance.",
    "note": "Bounds in evidence; Tick stub; callbacks from linear families; defaults from the falsy domain.",
}
