"""C37 — source factories emit their specified sequences."""
import reactivex
from reactivex import operators as ops

from engine.api import I, harness, cover
from engine.lib import Injected, make_scheduler, rec_tuples, same_events
from engine.ticktime import Span

ERR = Injected("thrown")


def _run(mk):
    sch = make_scheduler()
    res = sch.start(lambda: mk(sch), disposed=260)
    return rec_tuples(res.messages)


def vals(ev):
    return [p for _, k, p in ev if k == "N"]


def kinds_tail(ev):
    return [k for _, k, _ in ev if k != "N"]


def concretize(x, lo, hi):
    for c in range(lo, hi + 1):
        if x == c:
            return c
    return hi


@harness(instances=lambda tier: [dict({"form": f}, **({} if tier == "quick" else {"W": 7})) for f in ("start", "start_stop", "start_stop_step")],
         start=I(lambda i: -i.get("W", 4), lambda i: i.get("W", 4)), stop=I(lambda i: -i.get("W", 4), lambda i: i.get("W", 4)),
         step=I(lambda i: -i.get("W", 4), lambda i: i.get("W", 4)), timeout=(90, 600))
def h_range(a, inst):
    if inst["form"] == "start":
        n = concretize(a.start, -4, 4)
        ev = _run(lambda s: reactivex.range(n))
        exp = list(range(n))
    elif inst["form"] == "start_stop":
        x, y = concretize(a.start, -4, 4), concretize(a.stop, -4, 4)
        ev = _run(lambda s: reactivex.range(x, y))
        exp = list(range(x, y))
    else:
        if a.step == 0:
            return True
        x, y, z = concretize(a.start, -4, 4), concretize(a.stop, -4, 4), concretize(a.step, -4, 4)
        ev = _run(lambda s: reactivex.range(x, y, z))
        exp = list(range(x, y, z))
    return vals(ev) == exp and kinds_tail(ev) == ["C"] and ev[-1][1] == "C"


@harness(instances=lambda tier: [{"fn": f, "N": n} for f in ("of", "from_iterable", "from_", "from_iterable_gen", "repeat_value", "return_value",
                                                              "empty", "never", "throw") for n in (((0, 1, 2, 3) if tier == "quick" else (0, 1, 2, 3, 4, 5)) if f in ("of", "from_iterable", "from_", "from_iterable_gen", "repeat_value") else (0,))],
         v=I(-2, 2, n=lambda i: max(i["N"], 1)), timeout=(60, 300))
def h_simple(a, inst):
    n = inst["N"]
    xs = list(a.v)[:n]
    f = inst["fn"]
    if f == "of":
        ev, exp, tail = _run(lambda s: reactivex.of(*xs)), xs, ["C"]
    elif f == "from_iterable":
        ev, exp, tail = _run(lambda s: reactivex.from_iterable(xs)), xs, ["C"]
    elif f == "from_":
        ev, exp, tail = _run(lambda s: reactivex.from_(tuple(xs))), xs, ["C"]
    elif f == "from_iterable_gen":
        ev, exp, tail = _run(lambda s: reactivex.from_iterable(x for x in xs)), xs, ["C"]
    elif f == "repeat_value":
        ev, exp, tail = _run(lambda s: reactivex.repeat_value(a.v[0], n)), [a.v[0]] * n, ["C"]
    elif f == "return_value":
        ev, exp, tail = _run(lambda s: reactivex.return_value(a.v[0])), [a.v[0]], ["C"]
    elif f == "empty":
        ev, exp, tail = _run(lambda s: reactivex.empty()), [], ["C"]
    elif f == "never":
        ev, exp, tail = _run(lambda s: reactivex.never()), [], []
    else:
        ev = _run(lambda s: reactivex.throw(ERR))
        return len(ev) == 1 and ev[0][1] == "E" and ev[0][2] is ERR
    return vals(ev) == exp and kinds_tail(ev) == tail


@harness(instances=lambda tier: [{"kind": k} for k in ("generate", "relative_int", "relative_span")],
         init=I(0, 2), th=I(0, 4), st=I(1, 2), da=I(0, 2), db=I(0, 2), timeout=(90, 600))
def h_generate(a, inst):
    """generate(init, x < th, x + st) emits the states of the equivalent while-loop; the relative-time form emits each state after
    the delay da*x + db computed for it (zero included), as ints or as timedelta-like spans"""
    states, x = [], a.init
    while x < a.th:
        states.append(x)
        x = x + a.st
    if inst["kind"] == "generate":
        ev = _run(lambda s: reactivex.generate(a.init, lambda v: v < a.th, lambda v: v + a.st))
        return vals(ev) == states and kinds_tail(ev) == ["C"]
    if inst["kind"] == "relative_int":
        tm = lambda v: a.da * v + a.db  # noqa: E731
    else:
        import os
        from datetime import timedelta
        if os.environ.get("VERIF_STOCK") == "1":
            tm = lambda v: timedelta(seconds=a.da * v + a.db)  # noqa: E731  (stock replay: a real timedelta)
        else:
            tm = lambda v: Span(a.da * v + a.db)  # noqa: E731
    ev = _run(lambda s: reactivex.generate_with_relative_time(a.init, lambda v: v < a.th, lambda v: v + a.st, tm))
    t, exp = 200, []
    for v in states:
        t = t + (a.da * v + a.db)
        exp.append((t, "N", v))
    exp.append((t, "C", None))
    cover("ran")
    return same_events(ev, exp)


@harness(instances=lambda tier: [{"kind": k} for k in ("timer", "timer_period", "interval")], d=I(0, 5), p=I(1, 3), timeout=(90, 600))
def h_timer(a, inst):
    if inst["kind"] == "timer":
        ev = _run(lambda s: reactivex.timer(a.d))
        return same_events(ev, [(200 + a.d, "N", 0), (200 + a.d, "C", None)])
    p = concretize(a.p, 1, 3)
    if inst["kind"] == "timer_period":
        d = concretize(a.d, 0, 5)
        sch = make_scheduler()
        res = sch.start(lambda: reactivex.timer(d, p), disposed=215)
        ev = rec_tuples(res.messages)
        exp = [(200 + d + k * p, "N", k) for k in range(0, 20) if 200 + d + k * p < 215]
        return same_events(ev, exp)
    sch = make_scheduler()
    res = sch.start(lambda: reactivex.interval(p), disposed=215)
    ev = rec_tuples(res.messages)
    exp = [(200 + (k + 1) * p, "N", k) for k in range(0, 20) if 200 + (k + 1) * p < 215]
    return same_events(ev, exp)


ENCODED = ["reactivex/observable/range.py", "reactivex/observable/fromiterable.py", "reactivex/observable/returnvalue.py",
           "reactivex/observable/empty.py", "reactivex/observable/never.py", "reactivex/observable/throw.py",
           "reactivex/observable/generate.py", "reactivex/observable/generatewithrelativetime.py", "reactivex/observable/timer.py",
           "reactivex/observable/repeat.py", "reactivex/observable/interval.py"]
BOUNDS = {"quick": "range arguments in [-4,4] in all three call forms; iterables of 0..3 ints in [-2,2] (lists, tuples, generators); "
                   "generate with init in [0,2], condition x < th (th in [0,4]), step 1..2; relative delays da*x+db with da, db in [0,2] "
                   "(zero included) as ints and as span objects; timer(d) d in [0,5]; timer(d, period) and interval(period), period 1..3",
          "thorough": "range arguments in [-7,7]; iterables of 0..5 items; the rest as in the quick tier"}
ASSUMES = ["Tick/Span time stub (Span stands in for timedelta delays)", "range arguments are realised by branching (range() needs concrete ints)"]
MANIFEST = {
    "text": "Bounded symbolic model checking: factory arguments and loop/delay function parameters are solver variables; the recorded "
            "(time, notification) list must equal list(range(...)), the iterable, the while-loop's states at the cumulative delays, "
            "0 at d, v repeated n times.",
    "note": "arguments in small integer ranges.",
}
