"""C02 — termination releases every source subscription."""
from engine.api import harness, cover
from engine.lib import grammar_ok
from harness import pipe
from harness.catalog import E

INF = 10 ** 9


def released(r, T):
    """every test-source subscription closed no later than T (sys.maxsize = never closed = leak)"""
    for name, s, u in pipe.subs_log(r):
        if u > T:
            return False
    return True


def terminal_time(events):
    for t, k, _ in events:
        if k in ("E", "C"):
            return t
    return None


def _rinst(tier):
    out = pipe.instances(tier, 2, 3, nmin=1, lean=True)
    if tier == "quick":
        # queued inner sources need two outer elements: the fault position is split over instances to fit the quick budget
        out += [{"op": o, "N": 2, "k": k} for o in ("merge_max", "concat_map") for k in range(0, 5)]
    return out


@harness(instances=_rinst, timeout=(120, 900), **pipe.params(with_k=True))
def h_release(a, inst):
    r = pipe.run(a, inst, k=inst["k"] if "k" in inst else a.k)
    if r.escaped is not None:
        return True  # an escaping callback exception is C09's subject, not a release question
    T = terminal_time(r.events)
    if T is None:
        return True
    cover("terminated")
    return released(r, T)


# ------------------------------------------------------------------ the subscriber's own terminal handler raises
import reactivex  # noqa: E402
from reactivex import operators as ops  # noqa: E402

from engine.api import I  # noqa: E402
from engine.lib import Injected, make_scheduler, on_completed, on_error, on_next  # noqa: E402

SHAPES = {
    "plain": lambda a, b: a,
    "map": lambda a, b: a.pipe(ops.map(lambda x: x)),
    "merge": lambda a, b: reactivex.merge(a, b),
    "op_merge": lambda a, b: a.pipe(ops.merge(b)),
    "concat": lambda a, b: reactivex.concat(a, b),
    "take_until": lambda a, b: a.pipe(ops.take_until(b.pipe(ops.skip(5)))),
    "sample": lambda a, b: a.pipe(ops.sample(b)),
    "combine_latest": lambda a, b: reactivex.combine_latest(a, b),
    "with_latest_from": lambda a, b: a.pipe(ops.with_latest_from(b)),
    "zip": lambda a, b: reactivex.zip(a, b),
    "flat_map": lambda a, b: a.pipe(ops.flat_map(lambda x: b)),
    "switch_latest": lambda a, b: a.pipe(ops.map(lambda x: b), ops.switch_latest()),
    "amb": lambda a, b: reactivex.amb(a, b),
    "catch": lambda a, b: a.pipe(ops.catch(b)),
    "share": lambda a, b: reactivex.merge(a, b).pipe(ops.share()),
}
BOOM = Injected("subscriber")


@harness(instances=lambda tier: [{"shape": s} for s in SHAPES], g=I(0, 2, n=2), term=I(1, 2), how=I(0, 2), timeout=(60, 600))
def h_subscriber_raises(a, inst):
    """a terminates (completed / error) at a symbolic time while b is still running; the subscriber's terminal handler raises (how
    = 1), re-raises the error it was given as the default on_error handler does (how = 2), or behaves (how = 0).  Whatever
    the handler does, once the subscriber has been sent its terminal notification no test source may stay subscribed"""
    sch = make_scheduler()
    ma = [on_next(1 + a.g[0], 1)]
    ma.append(on_completed(2 + a.g[0] + a.g[1]) if a.term == 1 else on_error(2 + a.g[0] + a.g[1], Injected("a")))
    A = sch.create_cold_observable(ma)
    B = sch.create_cold_observable([on_next(1, 50), on_next(30, 51)])  # still running when a terminates; never terminates itself
    obs = SHAPES[inst["shape"]](A, B)
    log = []

    def on_err(e):
        log.append("E")
        if a.how == 1:
            raise BOOM
        if a.how == 2:
            raise e  # what the default on_error handler of subscribe() does

    def on_done():
        log.append("C")
        if a.how == 1:
            raise BOOM

    def sub(s, st):
        obs.subscribe(lambda v: log.append("N"), on_err, on_done, scheduler=s)

    sch.schedule_absolute(200, sub)
    try:
        sch.advance_to(228)
    except Exception:  # noqa: BLE001  (the subscriber's own exception surfaces from the scheduler run)
        pass
    if "E" not in log and "C" not in log:
        return True  # the subscriber was not sent a terminal notification within the horizon (e.g. concat with a running b)
    cover("terminated")
    for src in (A, B):
        for x in src.subscriptions:
            if x.unsubscribe > 228:
                return False
    return True


# ------------------------------------------------------------------ operators that hand out observables, terminated from downstream
NESTED = {
    "window_with_count": lambda sch: ops.window_with_count(2),
    "window_with_count_skip": lambda sch: ops.window_with_count(2, 1),
    "window_with_time": lambda sch: ops.window_with_time(3, scheduler=sch),
    "window_with_time_or_count": lambda sch: ops.window_with_time_or_count(3, 2, scheduler=sch),
    "window_when": lambda sch: ops.window_when(lambda: reactivex.timer(3, scheduler=sch)),
    "window_toggle": lambda sch: ops.window_toggle(reactivex.timer(0, 2, scheduler=sch), lambda _: reactivex.timer(3, scheduler=sch)),
    "window_boundaries": lambda sch: ops.window(reactivex.timer(2, 2, scheduler=sch)),
    "group_by": lambda sch: ops.group_by(lambda x: x % 2),
    "group_by_until_timer": lambda sch: ops.group_by_until(lambda x: x % 2, None, lambda g: reactivex.timer(3, scheduler=sch)),
    "group_by_until_self": lambda sch: ops.group_by_until(lambda x: x % 2, None, lambda g: g.pipe(ops.skip(2))),
    "group_by_until_self_count": lambda sch: ops.group_by_until(lambda x: x % 2, None, lambda g: g.pipe(ops.count())),
    "partition_first": lambda sch: (lambda src: reactivex.of(*src.pipe(ops.partition(lambda x: x % 2 == 0)))),
}


@harness(instances=lambda tier: [{"op": o, "N": 3} for o in NESTED], v=I(0, 3, n=3), g=I(0, 2, n=3), take=I(1, 2), sub=I(0, 1), timeout=(60, 600))
def h_downstream_take(a, inst):
    """a never-terminating hot source -> an operator that emits windows / groups -> take(k): the subscriber is completed from
    downstream while windows / groups are open.  With sub == 1 every emitted inner observable was subscribed by the consumer and
    is unsubscribed again when the outer completes; with sub == 0 nobody subscribed them.  Either way nothing may keep the source
    (or any other test source) subscribed once the consumer holds no subscription any more"""
    sch = make_scheduler()
    t, msgs = 210, []
    for i in range(3):
        t = t + a.g[i]
        msgs.append(on_next(t, a.v[i]))
    src = sch.create_hot_observable(msgs)
    inner_subs = []
    done = []

    def consume(w):
        if a.sub:
            inner_subs.append(w.subscribe(lambda v: None, lambda e: None, scheduler=sch))

    out = src.pipe(NESTED[inst["op"]](sch), ops.do_action(consume), ops.take(a.take))

    def go(s, st):
        out.subscribe(lambda v: None, lambda e: None, lambda: (done.append(sch.clock), [d.dispose() for d in inner_subs]), scheduler=s)

    sch.schedule_absolute(200, go)
    sch.advance_to(232)
    if not done:
        return True
    cover("completed")
    for x in src.subscriptions:
        if x.unsubscribe > 232:
            return False
    return True


ENCODED = ["reactivex/observable/observable.py", "reactivex/observer/autodetachobserver.py",
           "reactivex/disposable/compositedisposable.py", "reactivex/disposable/serialdisposable.py",
           "reactivex/disposable/singleassignmentdisposable.py", "reactivex/disposable/refcountdisposable.py",
           "reactivex/operators/__init__.py", "reactivex/testing/coldobservable.py", "reactivex/testing/hotobservable.py"]
BOUNDS = {"quick": "every catalogued operator (depth 1; windows/groups flattened with merge_all so each inner is subscribed), main source "
                   "N in 1..2 elements, second source 1 element, two cold inner sources, all gaps in [0,2], terminal kinds "
                   "none/completed/error for every source, parameters p in [0,2], m in [1,2], callback fault position k in [0,N+2]; 15 two-source shapes whose subscriber's own terminal handler raises, is missing "
                   "(default on_error re-raises) or behaves, with the first source terminating at a symbolic time while the second is "
                   "still running; 12 window / group operators over a never-ending source completed from downstream by take(1..2) with the "
                   "emitted windows / groups subscribed or not",
          "thorough": "N in 1..3"}
ASSUMES = ["Tick/Span time stub", "sources are test observables (their subscription logs are the observation point)",
           "termination time = virtual time of the subscriber's terminal notification; every subscription must be closed at that tick"]
MANIFEST = {
    "text": "Bounded symbolic model checking of every catalogued operator: source timelines, terminal kinds, parameters and the "
            "callback fault position are solver variables; after the subscriber's terminal notification every test-source "
            "subscription log must be closed at that instant; all paths exhausted per (operator, N).",
    "note": "Depth-1 pipelines over the catalog; bounds in evidence.",
}
