"""C02 — termination releases every source subscription."""
from engine.api import harness, cover
from engine.lib import grammar_ok
from harness import pipe
from harness.catalog import E

INF = 10 ** 9


def released(r, T):
    """every test-source subscription closed no later than T (sys.maxsize = never closed = leak)"""
    for name, s, u in pipe.subs_log(r):
        if u > T:
            return False
    return True


def terminal_time(events):
    for t, k, _ in events:
        if k in ("E", "C"):
            return t
    return None


@harness(instances=lambda tier: pipe.instances(tier, 2, 3, nmin=1), timeout=(90, 900), **pipe.params(with_k=True))
def h_release(a, inst):
    r = pipe.run(a, inst, k=a.k)
    if r.escaped is not None:
        return True  # an escaping callback exception is C09's subject, not a release question
    T = terminal_time(r.events)
    if T is None:
        return True
    cover("terminated")
    return released(r, T)


ENCODED = ["reactivex/observable/observable.py", "reactivex/observer/autodetachobserver.py",
           "reactivex/disposable/compositedisposable.py", "reactivex/disposable/serialdisposable.py",
           "reactivex/disposable/singleassignmentdisposable.py", "reactivex/disposable/refcountdisposable.py",
           "reactivex/operators/__init__.py", "reactivex/testing/coldobservable.py", "reactivex/testing/hotobservable.py"]
BOUNDS = {"quick": "every catalogued operator (depth 1; windows/groups flattened with merge_all so each inner is subscribed), main source "
                   "N in 1..2 elements, second source 1 element, two cold inner sources, all gaps in [0,2], terminal kinds "
                   "none/completed/error for every source, parameters p in [0,2], m in [1,2], callback fault position k in [0,N+2]",
          "thorough": "N in 1..3"}
ASSUMES = ["Tick/Span time stub", "sources are test observables (their subscription logs are the observation point)",
           "termination time = virtual time of the subscriber's terminal notification; every subscription must be closed at that tick"]
MANIFEST = {
    "text": "Bounded symbolic model checking of every catalogued operator: source timelines, terminal kinds, parameters and the "
            "callback fault position are solver variables; after the subscriber's terminal notification every test-source "
            "subscription log must be closed at that instant; all paths exhausted per (operator, N).",
    "note": "Depth-1 pipelines over the catalog; bounds in evidence.",
}
