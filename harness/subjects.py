"""Shared driver for C20 / C21 / C23: one symbolic call history is executed on the real subject and on a
reference subject written from the property statements; per-observer logs and raised exceptions must agree.

History alphabet (op codes):
 0 sA   subscribe observer A            1 sB  subscribe observer B
 2 uA   unsubscribe A                   3 uB  unsubscribe B
 4 N    subject.on_next(fresh value)    5 E   subject.on_error(exc)     6 C  subject.on_completed()
 7 D    subject.dispose()
 8 armA:unsub-self   9 armA:unsub-B   10 armA:subscribe-C   11 armB:unsub-A
 (an armed action fires once, inside that observer's next on_next callback)
"""
from reactivex.internal.exceptions import DisposedException

NOPS = 12
OPNAMES = ["sA", "sB", "uA", "uB", "N", "E", "C", "D", "armA:unsub-self", "armA:unsub-B", "armA:sub-C", "armB:unsub-A"]
ERR = Exception("subject-error")


class Slot:
    def __init__(self, name, world):
        self.name, self.world = name, world
        self.log = []
        self.handle = None
        self.armed = None
        self.busy = False

    # observer callbacks
    def on_next(self, v):
        self.log.append(("N", v))
        act, self.armed = self.armed, None
        if act is not None:
            self.world.fire(self, act)

    def on_error(self, e):
        self.log.append(("E", e if e is ERR else type(e).__name__))

    def on_completed(self):
        self.log.append(("C", None))


class World:
    """the harness-side bookkeeping, identical for the real and the reference subject"""

    def __init__(self, subject):
        self.s = subject
        self.A, self.B, self.C = Slot("A", self), Slot("B", self), Slot("C", self)
        self.raised = []
        self.nv = 0

    def sub(self, slot):
        if slot.handle is not None or slot.busy:
            return
        slot.busy = True
        try:
            h = self.s.subscribe(slot.on_next, slot.on_error, slot.on_completed)
        except DisposedException:
            # raised by subscribe() or routed to on_error by Observable.subscribe: the same observable fact
            slot.log.append(("E", "DisposedException"))
            h = None
        slot.busy = False
        slot.handle = h

    def unsub(self, slot):
        if slot.handle is not None:
            slot.handle.dispose()
            slot.handle = None

    def fire(self, slot, act):
        if act == "unsub-self":
            self.unsub(slot)
        elif act == "unsub-A":
            self.unsub(self.A)
        elif act == "unsub-B":
            self.unsub(self.B)
        elif act == "sub-C":
            self.sub(self.C)

    def emit(self, kind):
        try:
            if kind == "N":
                self.nv += 1
                # the first two values are None and 0 (falsy values are ordinary elements), later ones fresh ints
                self.s.on_next((None, 0)[self.nv - 1] if self.nv <= 2 else 100 + self.nv)
            elif kind == "E":
                self.s.on_error(ERR)
            else:
                self.s.on_completed()
        except DisposedException:
            self.raised.append(("emit", kind))

    def step(self, op):
        if op == 0:
            self.sub(self.A)
        elif op == 1:
            self.sub(self.B)
        elif op == 2:
            self.unsub(self.A)
        elif op == 3:
            self.unsub(self.B)
        elif op == 4:
            self.emit("N")
        elif op == 5:
            self.emit("E")
        elif op == 6:
            self.emit("C")
        elif op == 7:
            self.s.dispose()
        elif op == 8:
            self.A.armed = "unsub-self"
        elif op == 9:
            self.A.armed = "unsub-B"
        elif op == 10:
            self.A.armed = "sub-C"
        else:
            self.B.armed = "unsub-A"

    def snapshot(self):
        return (self.A.log, self.B.log, self.C.log, self.raised)


# ------------------------------------------------------------------ reference subjects (from the statements)
class _Handle:
    def __init__(self, ref, token):
        self.ref, self.token = ref, token

    def dispose(self):
        self.ref._remove(self.token)


class _Nop:
    def dispose(self):
        pass


class RefSubject:
    """kind: 'subject' | 'behavior' | 'async'"""

    def __init__(self, kind, initial=None):
        self.kind = kind
        self.subs = []  # [token, on_next, on_error, on_completed, alive]
        self.term = None
        self.disposed = False
        self.value, self.has_value = initial, kind == "behavior"

    def _remove(self, token):
        if self.disposed:
            return
        for s in self.subs:
            if s[0] is token:
                self.subs.remove(s)
                break
        token[0] = False

    def subscribe(self, on_next, on_error, on_completed):
        if self.disposed:
            # Observable.subscribe routes an exception raised while subscribing to the observer's on_error
            on_error(DisposedException())
            return _Nop()
        if self.term is not None:
            if self.term[0] == "E":
                on_error(self.term[1])
            else:
                if self.kind == "async" and self.has_value:
                    on_next(self.value)
                on_completed()
            return _Nop()
        token = [True]
        self.subs.append([token, on_next, on_error, on_completed])
        if self.kind == "behavior":
            on_next(self.value)
        return _Handle(self, token)

    def on_next(self, v):
        if self.disposed:
            raise DisposedException()
        if self.term is not None:
            return
        if self.kind == "async":
            self.value, self.has_value = v, True
            return
        if self.kind == "behavior":
            self.value = v
        for s in list(self.subs):
            if s[0][0]:  # still subscribed (an earlier callback of this delivery may have unsubscribed it: C03 silences it)
                s[1](v)

    def on_error(self, e):
        if self.disposed:
            raise DisposedException()
        if self.term is not None:
            return
        self.term = ("E", e)
        snap, self.subs = list(self.subs), []
        for s in snap:
            if s[0][0]:
                s[0][0] = False
                s[2](e)

    def on_completed(self):
        if self.disposed:
            raise DisposedException()
        if self.term is not None:
            return
        self.term = ("C",)
        snap, self.subs = list(self.subs), []
        for s in snap:
            if s[0][0]:
                if self.kind == "async" and self.has_value:
                    s[1](self.value)
                if s[0][0]:
                    s[0][0] = False
                    s[3]()

    def dispose(self):
        self.disposed = True
        for s in self.subs:
            s[0][0] = False
        self.subs = []


def normalise(snap):
    """a DisposedException delivered to on_error by Observable.subscribe and one raised by subscribe() are the same observable fact"""
    A, B, C, raised = snap
    return ([x for x in A], [x for x in B], [x for x in C], list(raised))


def run_history(make_real, make_ref, ops):
    wr, wm = World(make_real()), World(make_ref())
    for op in ops:
        wr.step(op)
        wm.step(op)
    return wr.snapshot(), wm.snapshot()


def equal_snap(r, m):
    for lr, lm in zip(r[:3], m[:3]):
        if len(lr) != len(lm):
            return False
        for x, y in zip(lr, lm):
            if x[0] != y[0]:
                return False
            if x[0] == "N":
                if x[1] is not y[1] and x[1] != y[1]:
                    return False
                if type(x[1]) is not type(y[1]):
                    return False
            elif x[0] == "E" and x[1] is not y[1] and x[1] != y[1]:
                return False
    return r[3] == m[3]


def concretize(x, n):
    for c in range(n):
        if x == c:
            return c
    return n - 1


def history_instances(tier, extra=None, quick_len=4):
    """split on the first op (only the useful openers), rest symbolic"""
    out = []
    firsts = (0, 4, 5, 6, 7, 8, 10)
    if tier == "quick" and quick_len == 4:
        base = [{"first": f, "second": -1, "L": 4} for f in firsts]
    elif tier == "quick":
        base = [{"first": f, "second": g, "L": quick_len} for f in firsts for g in range(NOPS)]
    else:  # length 6, split on the first two ops
        base = [{"first": f, "second": g, "L": 6} for f in firsts for g in range(NOPS)]
    for d in base:
        if extra:
            for e in extra:
                out.append(dict(d, **e))
        else:
            out.append(d)
    return out


def history_ops(inst, h):
    pre = [inst["first"]] + ([inst["second"]] if inst.get("second", -1) >= 0 else [])
    return pre + [concretize(x, NOPS) for x in h]


def hlen(inst):
    return inst["L"] - 1 - (1 if inst.get("second", -1) >= 0 else 0)
