"""C33 — cancelling an asyncio-scheduled action is effective from any thread (GT: FakeLoop contract stub, controlled loop clock)."""
import datetime as _dt

import reactivex.disposable.compositedisposable as m_comp
import reactivex.disposable.singleassignmentdisposable as m_sad
import reactivex.scheduler.eventloop.asyncioscheduler as m_as
import reactivex.scheduler.eventloop.asynciothreadsafescheduler as m_ats
import reactivex.scheduler.scheduler as m_sched
from reactivex.internal.constants import UTC_ZERO
from reactivex.scheduler.eventloop import AsyncIOScheduler, AsyncIOThreadSafeScheduler

import engine.fakeloop as m_fl
from engine import gate
from engine.api import I, harness, cover
from engine.fakeloop import AsyncioShim, FakeLoop, GateFuture
from harness.C31 import gsleep


def controlled_now():
    return UTC_ZERO + _dt.timedelta(seconds=gate.Clock.t)


SCEN = {
    "ts": ["foreign_dispose_running", "loop_thread_dispose", "not_running_dispose", "stopped_then_dispose", "foreign_dispose_stopped",
           "late_start_dispose_behind", "foreign_dispose_stop_restart", "foreign_schedule_loop_dispose"],
    "plain": ["loop_thread_dispose", "not_running_dispose", "stopped_then_dispose", "late_start_dispose_behind"],
}


def run_once(inst, vals, preempts):
    mode, d0, c = vals
    kind, scen = inst["kind"], inst["scen"]
    loop = FakeLoop()
    shim = AsyncioShim([loop])
    with gate.install(m_sched, m_as, m_ats, m_sad, m_comp, extra={"default_now": controlled_now, "asyncio": shim, "Future": GateFuture}):
        gate.watch(m_as, m_ats, m_fl)
        g = gate.Gate()
        sch = (AsyncIOThreadSafeScheduler if kind == "ts" else AsyncIOScheduler)(loop)
        started, bad, marks, seq, H = {}, [], {}, [0], {}

        def tick():
            seq[0] += 1
            return seq[0]

        def action(scheduler, state):
            started["A"] = (gate.Clock.t, tick())
            if gate.Clock.t < marks["due"]:
                bad.append("started at %s before its due time %s" % (gate.Clock.t, marks["due"]))
            if not (loop._running and loop._thread == __import__("threading").get_ident()):
                bad.append("not on the loop's thread")
            idx = g.me()
            if idx is not None:
                g.yield_point(idx, "in-action")

        def submit():
            t0 = gate.Clock.t
            if mode == 0:
                marks["due"] = t0
                return sch.schedule(action)
            marks["due"] = t0 + d0 + 1
            if mode == 1:
                return sch.schedule_relative(_dt.timedelta(seconds=d0 + 1), action)
            return sch.schedule_absolute(UTC_ZERO + _dt.timedelta(seconds=t0 + d0 + 1), action)

        def dispose():
            H["d"].dispose()
            marks["disposed"] = (gate.Clock.t, tick())

        nclients = 1
        if scen == "foreign_dispose_running":
            if inst.get("busy"):
                loop.call_soon(lambda: gsleep(inst["busy"]))  # the loop thread is busy in a long callback for a while
            g.spawn(lambda: loop.run_for(None), "loop")

            def client():
                H["d"] = submit()
                if c:
                    gsleep(c)
                dispose()
                gsleep(5)
                loop.call_soon_threadsafe(loop.stop)
            g.spawn(client)
            nclients = 2
        elif scen == "foreign_dispose_stop_restart":
            # the loop thread is busy in a callback that ends with stop(); meanwhile a foreign thread schedules and disposes; the
            # loop is restarted later.  dispose() may only return once the cancellation has taken effect
            def lbody():
                loop.call_soon(lambda: (gsleep(2), loop.stop()))
                loop.run_for(None)
                gsleep(2)
                loop.run_for(4)

            def client():
                gsleep(0.5)
                H["d"] = submit()
                if c:
                    gsleep(c / 2)
                dispose()
            g.spawn(lbody, "loop")
            g.spawn(client)
            nclients = 2
        elif scen == "foreign_schedule_loop_dispose":
            # scheduled from a foreign thread while the loop runs, disposed later from a callback on the loop thread
            def lbody():
                loop.call_later(1 + c / 2, lambda: dispose() if "d" in H else None)
                loop.call_later(7, loop.stop)
                loop.run_for(None)

            def client():
                gsleep(0.5)
                H["d"] = submit()
            g.spawn(lbody, "loop")
            g.spawn(client)
            nclients = 2
        elif scen == "loop_thread_dispose":
            def body():
                loop.call_soon(lambda: H.__setitem__("d", submit()))
                loop.call_later(c, dispose)
                loop.call_later(6, loop.stop)
                loop.run_for(None)
            g.spawn(body)
        elif scen == "not_running_dispose":
            def body():
                H["d"] = submit()
                dispose()
                loop.run_for(4)
            g.spawn(body)
        elif scen == "late_start_dispose_behind":
            def body():
                H["d"] = submit()
                if c:
                    gsleep(c)  # the loop starts late (possibly after the due time) ...
                loop.call_soon(dispose)  # ... with a callback queued behind the scheduler's own first callback that disposes
                loop.run_for(4)
            g.spawn(body)
        elif scen == "stopped_then_dispose":
            def body():
                H["d"] = submit()
                loop.run_for(c / 2)  # the loop runs (stage 2 registers its timer) and stops again before the action is due
                dispose()
                loop.run_for(4)
            g.spawn(body)
        else:  # foreign_dispose_stopped: another thread disposes while the loop is stopped; the loop restarts only afterwards
            ev1, ev2 = gate.GateEvent(), gate.GateEvent()

            def body():
                H["d"] = submit()
                loop.run_for(c / 2)
                ev1.set()
                ev2.wait()
                loop.run_for(4)

            def other():
                ev1.wait()
                dispose()
                ev2.set()
            g.spawn(body)
            g.spawn(other)
            nclients = 2
        r = g.run(preempts, maxsteps=2500)
        ok = r == "done" and not g.errors and not bad
        if "A" in started and "disposed" in marks and started["A"][1] > marks["disposed"][1]:
            ok = False  # the action started although dispose() had returned
        if "A" not in started and "disposed" in marks and marks["disposed"][0] > marks["due"] and not preempts and not inst.get("busy") \
                and scen not in ("late_start_dispose_behind", "foreign_dispose_stop_restart"):
            ok = False  # (undisturbed run) an action that was due before it was cancelled did run
        if not ok and __import__("os").environ.get("VERIF_DEBUG"):
            print("DEBUG", r, g.errors, bad, started, marks, g.done, file=__import__("sys").stderr)
        return ok, g.steps


def _inst(tier):
    out = []
    for k in SCEN:
        for s in SCEN[k]:
            i = {"kind": k, "scen": s, "P": 1, "gran": "coarse" if tier == "quick" else "fine"}
            if s in ("loop_thread_dispose", "not_running_dispose", "stopped_then_dispose", "late_start_dispose_behind"):
                i["P"] = 0  # one thread only: nothing to interleave
            if s == "foreign_dispose_running":
                out += [dict(i, mode=m, c=c, busy=b) for m in (0, 1, 2) for c in (0, 1, 2, 3) for b in (0, 2)
                        if not (b and (m == 0 or c == 3))]  # split for parallelism
            elif s in ("foreign_dispose_stop_restart", "foreign_schedule_loop_dispose"):
                out += [dict(i, mode=m, c=c) for m in (0, 1, 2) for c in (0, 1, 2, 3)]  # split for parallelism
            else:
                out.append(i)
    return out


_BASE = {}


@harness(instances=_inst, mode=I(0, 2), d0=I(0, 1), c=I(0, 3), p0=I(0, 100000), pos=I(0, 100000, n=lambda i: max(i["P"] - 1, 0)),
         tgt=I(0, 1, n=lambda i: i["P"]), timeout=(270, 1800), stock=False)
def h_asyncio(a, inst):
    gate.GRANULARITY = inst.get("gran", "coarse")
    mode = inst["mode"] if "mode" in inst else gate.concrete(a.mode, 0, 2)
    d0 = gate.concrete(a.d0, 0, 1)
    c = inst["c"] if "c" in inst else gate.concrete(a.c, 0, 3)
    if mode == 0 and d0:
        return True  # schedule() has no delay
    if inst["scen"] in ("stopped_then_dispose", "foreign_dispose_stopped") and (mode == 0 or c == 0 or c / 2 >= d0 + 1):
        return True  # the first run of the loop ends before the action is due
    vals = (mode, d0, c)
    key = (inst["kind"], inst["scen"], inst.get("busy"), inst.get("gran"), vals)
    if key not in _BASE:
        with gate.untraced():
            _BASE[key] = run_once(inst, vals, [])
    ok0, L = _BASE[key]
    if not ok0:
        return False
    pre = [a.p0] + list(a.pos)
    preempts = []
    if inst["P"] > 1 and pre[1] <= pre[0]:
        return True
    for i in range(inst["P"]):
        if pre[i] > L + 2:
            return True  # beyond the end of the run
        preempts.append((gate.concrete(pre[i], 0, L + 2), -1 - gate.concrete(a.tgt[i], 0, 1)))
    with gate.untraced():
        ok, _ = run_once(inst, vals, preempts)
    cover("ran")
    return ok


ENCODED = ["reactivex/scheduler/eventloop/asynciothreadsafescheduler.py", "reactivex/scheduler/eventloop/asyncioscheduler.py"]
BOUNDS = {"quick": "AsyncIOThreadSafeScheduler: dispose from a foreign thread while the loop runs, on the loop thread, before the loop ever "
                   "ran, after the loop ran and stopped (same thread / another thread; from a foreign thread while the loop thread is about to stop and restart; scheduled from a "
                   "foreign thread and disposed on the loop thread), behind the scheduler's first callback of a loop that "
                   "starts late, with the loop thread busy in a 2 s callback; AsyncIOScheduler: the same-thread cases; "
                   "schedule / schedule_relative / schedule_absolute with delay 1..2 s, dispose 0..3 s (0.5..1.5 s of loop run) later; "
                   "1 preemption at coarse yield points of the two scheduler modules and of the loop stub (between its cancelled-check "
                   "and the callback), every lock / event operation", "thorough": "the same with instruction-level (fine) yield points"}
ASSUMES = ["the event loop is a contract stub (engine/fakeloop.py: BaseEventLoop._run_once semantics, Handle.cancel() only sets a flag, "
           "call_soon_threadsafe wakes the loop, time() is the controlled clock); asyncio.get_running_loop and concurrent.futures."
           "Future are stubs on gate primitives", "a real asyncio loop (selector, C-accelerated handles) is not executed"]
MANIFEST = {
    "engine": "GT",
    "text": "Gate-serialised real threads run the real AsyncIOScheduler / AsyncIOThreadSafeScheduler code against an asyncio-loop "
            "contract stub on a controlled clock; schedule kind, delay, dispose time and the preemption schedule are solver variables: "
            "the action runs on the loop thread, never before its due time, and never starts once dispose() has returned.",
    "note": "1 loop thread + 1 foreign thread; P<=1; coarse (quick) / fine (thorough) yield points.",
}
