"""C26 — container disposables dispose each held item exactly once.  Sequential call histories (XH) + interleavings (GT jobs)."""
from reactivex.disposable import CompositeDisposable, MultipleAssignmentDisposable, SerialDisposable, SingleAssignmentDisposable

from engine.api import I, harness, cover, known

# items: 0 plain, 1 falsy (defines __len__ == 0 like an empty CompositeDisposable), 2 re-entrant: its dispose() adds/assigns item 3
NITEMS = 3


class Item:
    def __init__(self, name, falsy=False, reenter=None):
        self.name, self.falsy, self.reenter, self.count = name, falsy, reenter, 0

    def __len__(self):
        return 0 if self.falsy else 1

    def dispose(self):
        self.count += 1
        if self.reenter is not None and self.count == 1:
            self.reenter()


def concretize(x, n):
    for c in range(n):
        if x == c:
            return c
    return n - 1


# op codes: 0..2 add/assign item k ; 3..5 remove item k (composite) ; 6 clear (composite) ; 7 dispose
NOPS = 8


class Model:
    """reference written from the statement: which items are held, how often each item must have been disposed"""

    def __init__(self, kind):
        self.kind, self.held, self.disposed, self.want = kind, [], False, {}
        self.raised = 0

    def dispose_item(self, k):
        self.want[k] = self.want.get(k, 0) + 1
        if k == 2 and self.want[k] == 1:
            self.put(3)  # the re-entrant item adds item 3 from inside its dispose()

    def put(self, k):
        if self.kind == "composite":
            if self.disposed:
                self.dispose_item(k)
            else:
                self.held.append(k)
        elif self.kind == "single":
            if self.held and not self.disposed:
                self.raised += 1
                return "raise"
            if self.disposed:
                self.dispose_item(k)
            else:
                self.held = [k]
        elif self.kind == "serial":
            if self.disposed:
                self.dispose_item(k)
            else:
                old, self.held = self.held, [k]
                for o in old:
                    self.dispose_item(o)
        else:  # multiple assignment: replacing does not dispose the old one
            if self.disposed:
                self.dispose_item(k)
            else:
                self.held = [k]

    def remove(self, k):
        if self.disposed:
            return
        if k in self.held:
            self.held.remove(k)
            self.dispose_item(k)

    def clear(self):
        old, self.held = self.held, []
        for o in old:
            self.dispose_item(o)

    def dispose(self):
        if self.disposed:
            return
        self.disposed = True
        old, self.held = self.held, []
        for o in old:
            self.dispose_item(o)


def _inst(tier):
    L = 4 if tier == "quick" else 5
    return [{"kind": k, "L": L, "first": f} for k in ("composite", "single", "serial", "multiple") for f in (0, 1, 2, 7)]


def _pre(a, inst):
    """each item is handed to the container at most once (adding one object twice is outside 'exactly once per item')"""
    seq = [inst["first"]] + list(a.op)
    used = [0, 0, 0]
    for o in seq:
        if o in (0, 1, 2):
            used[o] += 1
            if used[o] > 1:
                return False
        if inst["kind"] != "composite" and o in (3, 4, 5, 6):
            return False
    return True


@harness(instances=_inst, pre=_pre, op=I(0, NOPS - 1, n=lambda i: i["L"] - 1), timeout=(120, 900), stock=False)
def h_history(a, inst):
    kind = inst["kind"]
    cont = {"composite": CompositeDisposable, "single": SingleAssignmentDisposable, "serial": SerialDisposable,
            "multiple": MultipleAssignmentDisposable}[kind]()
    items = {}

    def put_real(k):
        if kind == "composite":
            cont.add(items[k])
        else:
            cont.disposable = items[k]

    items[0] = Item("plain")
    items[1] = Item("falsy", falsy=True)
    items[3] = Item("late")
    items[2] = Item("reentrant", reenter=lambda: put_real(3))
    model = Model(kind)
    seq = [inst["first"]] + [concretize(x, NOPS) for x in a.op]
    for o in seq:
        if o in (0, 1, 2):
            r = model.put(o)
            try:
                put_real(o)
                if r == "raise":
                    return False  # a second assignment to a live SingleAssignmentDisposable must be rejected
            except Exception:
                if r != "raise":
                    return False
        elif o in (3, 4, 5):
            model.remove(o - 3)
            cont.remove(items[o - 3])
        elif o == 6:
            model.clear()
            cont.clear()
        else:
            model.dispose()
            cont.dispose()
    cover("ran")
    for k, it in items.items():
        if it.count != model.want.get(k, 0):
            return False
    # never disposed while a live container still holds it
    if not model.disposed:
        for k in model.held:
            if items[k].count:
                return False
    return cont.is_disposed == model.disposed


ENCODED = ["reactivex/disposable/compositedisposable.py", "reactivex/disposable/serialdisposable.py",
           "reactivex/disposable/singleassignmentdisposable.py", "reactivex/disposable/multipleassignmentdisposable.py"]
BOUNDS = {"quick": "every call history of length 4 over {add/assign one of 3 items, remove item (composite), clear (composite), dispose} on "
                   "each of the four containers; items: plain, falsy (len() == 0, like an empty CompositeDisposable), and one whose "
                   "dispose() re-entrantly adds/assigns a fourth item; interleavings of two threads: see the GT jobs of this property",
          "thorough": "length 5"}
ASSUMES = ["'exactly once' is measured as dispose() calls on the item (observe_at: per-item dispose counts)",
           "each item object is handed to the container at most once per history"]
MANIFEST = {
    "engine": "XH+GT",
    "text": "Bounded symbolic model checking over call histories (solver-chosen op codes) of the four real container classes against a "
            "reference model of the statement; per-item dispose counts, rejected second assignment, items added after disposal and "
            "re-entrant additions during disposal are all decided per path.  Interleavings: gate-serialised real threads with a "
            "symbolic preemption schedule.",
    "note": "history length 4 / 5; 4 items; 2 threads with bounded preemptions for the interleaving part.",
}


# ------------------------------------------------------------------ interleavings: gate-serialised real threads (GT)
import reactivex.disposable.compositedisposable as m_comp  # noqa: E402
import reactivex.disposable.multipleassignmentdisposable as m_mad  # noqa: E402
import reactivex.disposable.serialdisposable as m_ser  # noqa: E402
import reactivex.disposable.singleassignmentdisposable as m_sad  # noqa: E402

from engine import gate  # noqa: E402

# thread programs (concrete per instance; the schedule is symbolic): each op is (code, item)
PROGRAMS = {
    "composite": [
        ([("add", 0)], [("dispose", None)]),
        ([("add", 0), ("remove", 0)], [("dispose", None)]),
        ([("add", 0)], [("add", 1), ("dispose", None)]),
        ([("add", 0), ("clear", None)], [("add", 1)]),
        ([("remove", 9)], [("dispose", None)]),
        ([("add", 0)], [("clear", None), ("dispose", None)]),
    ],
    "serial": [
        ([("assign", 0)], [("dispose", None)]),
        ([("assign", 0)], [("assign", 1)]),
        ([("assign", 0), ("assign", 1)], [("dispose", None)]),
    ],
    "single": [
        ([("assign", 0)], [("dispose", None)]),
        ([("assign", 0)], [("dispose", None), ("dispose", None)]),
    ],
    "multiple": [
        ([("assign", 0)], [("dispose", None)]),
        ([("assign", 0), ("assign", 1)], [("dispose", None)]),
    ],
}


def _ginst(tier):
    out = []
    for kind, progs in PROGRAMS.items():
        for pi in range(len(progs)):
            P = 2 if tier != "quick" else (2 if kind in ("single",) else 1)
            chunks = [(0, 70)] if P == 1 else [(0, 9), (10, 19), (20, 29), (30, 70)]
            for lo, hi in chunks:
                out.append({"kind": kind, "prog": pi, "P": P, "lo": lo, "hi": hi})
    return out


@harness(instances=_ginst, p0=I(lambda i: i["lo"], lambda i: i["hi"]), pos=I(0, 70, n=lambda i: i["P"] - 1), tgt=I(0, 1, n=lambda i: i["P"]),
         timeout=(240, 1800), stock=False)
def h_interleave(a, inst):
    """two threads run their call programs on one container; afterwards the main thread disposes the container.  Monitor: every
    item handed to the container was disposed exactly once (MultipleAssignment: a replaced item at most once, the held one once),
    an item pre-held and untouched is disposed once; no worker raised (except the documented rejection of a second assignment)"""
    kind = inst["kind"]
    pa, pb = PROGRAMS[kind][inst["prog"]]
    preempts = [([a.p0] + list(a.pos))[i] for i in range(inst["P"])]
    preempts = [(preempts[i], a.tgt[i]) for i in range(inst["P"])]
    with gate.install(m_comp, m_ser, m_sad, m_mad):
        gate.watch(m_comp, m_ser, m_sad, m_mad)
        g = gate.Gate()
        items = {k: Item("i%d" % k) for k in (0, 1, 9)}
        cont = {"composite": CompositeDisposable, "single": SingleAssignmentDisposable, "serial": SerialDisposable,
                "multiple": MultipleAssignmentDisposable}[kind]()
        if kind == "composite":
            cont.add(items[9])  # an item held from the start
        handed = {9} if kind == "composite" else set()
        rejected = []

        def mk(prog):
            def run():
                for code, k in prog:
                    if code == "add":
                        handed.add(k)
                        cont.add(items[k])
                    elif code == "remove":
                        cont.remove(items[k])
                    elif code == "clear":
                        cont.clear()
                    elif code == "assign":
                        handed.add(k)
                        try:
                            cont.disposable = items[k]
                        except Exception:
                            rejected.append(k)
                    else:
                        cont.dispose()
            return run

        g.spawn(mk(pa))
        g.spawn(mk(pb))
        r = g.run(preempts)
        if r != "done" or g.errors:
            return False
        cont.dispose()
        cover("ran")
        for k in handed:
            c = items[k].count
            if k in rejected:
                if c != 0:
                    return False
            elif kind == "multiple":
                if c > 1:
                    return False
            elif c != 1:
                return False
        if kind == "multiple" and handed and not any(items[k].count == 1 for k in handed):
            return False
        return True
