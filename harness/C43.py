"""C43 — combinators serialise concurrently emitting sources (GT: gate-serialised real threads, symbolic schedule)."""
import reactivex
import reactivex.internal.concurrency as m_conc
import reactivex.observable.combinelatest as m_cl
import reactivex.observable.merge as m_merge
import reactivex.observable.observable as m_obs
import reactivex.observable.withlatestfrom as m_wlf
import reactivex.observable.zip as m_zip
import reactivex.operators._amb as m_amb
import reactivex.operators._merge as m_opmerge
import reactivex.operators._windowwithtimeorcount as m_wtc
import reactivex.operators._windowwithtime as m_wt
import reactivex.scheduler.timeoutscheduler as m_tmo
import reactivex.disposable.compositedisposable as m_comp
import reactivex.disposable.refcountdisposable as m_rc
import reactivex.disposable.serialdisposable as m_ser
import reactivex.disposable.singleassignmentdisposable as m_sad
import reactivex.subject.subject as m_subj
from reactivex import operators as ops
from reactivex.disposable import Disposable

from engine import gate
from engine.api import I, harness, cover, known
from engine.lib import Injected, grammar_ok

ERR = Injected("src")


class ThreadSource(reactivex.Observable):
    """minimal single-observer source: its worker thread pushes a short sequence, serially, into the observer it was given"""

    def __init__(self):
        self.obs = None

        def subscribe(observer, scheduler=None):
            self.obs = observer
            return Disposable()
        super().__init__(subscribe)

    def emit(self, seq):
        for kind, v in seq:
            if self.obs is None:
                return
            if kind == "N":
                self.obs.on_next(v)
            elif kind == "C":
                self.obs.on_completed()
            else:
                self.obs.on_error(ERR)


class Downstream:
    """the user's observer, passed to the public subscribe(): flags two threads inside a callback at once; yields while inside"""

    def __init__(self, g):
        self.g, self.inside, self.overlap, self.log = g, 0, False, []

    def _enter(self, k):
        if self.inside:
            self.overlap = True
        self.inside += 1
        self.log.append(k)
        idx = self.g.me()
        if idx is not None:
            self.g.yield_point(idx, "downstream")
        self.inside -= 1

    def on_next(self, v):
        self._enter("N")

    def on_error(self, e):
        self._enter("E")

    def on_completed(self):
        self._enter("C")


SEQS = {
    "n_c": [("N", 1), ("C", None)],
    "n_e": [("N", 1), ("E", None)],
    "n_n_c": [("N", 1), ("N", 2), ("C", None)],
    "c": [("C", None)],
    "e": [("E", None)],
}

COMB = {
    "merge": lambda s: reactivex.merge(*s),
    "merge_all": lambda s: reactivex.of(*range(len(s))).pipe(ops.map(lambda i: s[i]), ops.merge_all()),
    "flat_map": lambda s: reactivex.of(*range(len(s))).pipe(ops.flat_map(lambda i: s[i])),
    "merge_max": lambda s: reactivex.of(*range(len(s))).pipe(ops.map(lambda i: s[i]), ops.merge(max_concurrent=len(s))),
    "zip": lambda s: reactivex.zip(*s),
    "combine_latest": lambda s: reactivex.combine_latest(*s),
    "with_latest_from": lambda s: s[0].pipe(ops.with_latest_from(*s[1:])),
    "amb": lambda s: s[0].pipe(ops.amb(s[1])),
}
WATCH = [m_conc, m_cl, m_merge, m_wlf, m_zip, m_amb, m_opmerge]
LOCKMODS = [m_obs, m_cl, m_merge, m_wlf, m_zip, m_amb, m_opmerge, m_comp, m_ser, m_sad, m_rc, m_subj, m_wt, m_wtc, m_tmo]

# recorded findings: handlers that reach the downstream observer without taking the combinator's lock
FINDINGS = {}


def _inst(tier):
    out = []
    pairs = [("n_c", "n_c"), ("n_c", "n_e"), ("n_n_c", "c"), ("n_e", "n_c"), ("n_c", "e")]
    for name in COMB:
        for sa, sb in pairs:
            P = 2 if (tier != "quick" or ((sa, sb) in (("n_c", "n_c"), ("n_c", "n_e")) and name in ("zip", "combine_latest", "merge"))) else 1
            chunks = [(0, 150)] if P == 1 else [(0, 3), (4, 7), (8, 11), (12, 15), (16, 21), (22, 29), (30, 150)]
            for lo, hi in chunks:
                out.append({"comb": name, "a": sa, "b": sb, "P": P, "lo": lo, "hi": hi})
    return out


@harness(instances=_inst, p0=I(lambda i: i["lo"], lambda i: i["hi"]), pos=I(0, 150, n=lambda i: i["P"] - 1), tgt=I(0, 1, n=lambda i: i["P"]),
         timeout=(240, 1800), stock=False)
def h_two_sources(a, inst):
    return h_two_sources_impl(a, inst)


_BASE = {}


def h_two_sources_impl(a, inst):
    gate.GRANULARITY = "coarse" if inst["P"] > 1 else "fine"

    def run(preempts):
        with gate.install(*LOCKMODS):
            gate.watch(*WATCH)
            g = gate.Gate()
            srcs = [ThreadSource(), ThreadSource()]
            down = Downstream(g)
            COMB[inst["comb"]](srcs).subscribe(down.on_next, down.on_error, down.on_completed)
            g.spawn(lambda: srcs[0].emit(SEQS[inst["a"]]))
            g.spawn(lambda: srcs[1].emit(SEQS[inst["b"]]))
            r = g.run(preempts)
            ok = r == "done" and not g.errors and (not down.overlap) and grammar_ok(down.log)
            return ok, g.steps

    # the schedule variables are realised on the main thread before any worker starts (no symbolic value reaches a worker);
    # positions beyond the length of the run are all "no preemption" and are folded into one value
    key = (inst["comb"], inst["a"], inst["b"], gate.GRANULARITY)
    if key not in _BASE:
        _BASE[key] = run([])  # baseline run (no preemption): also gives the length of the run; once per worker process
    ok0, L = _BASE[key]
    if not ok0:
        return False
    pre = [a.p0] + list(a.pos)
    preempts = []
    if inst["P"] > 1 and pre[1] <= pre[0]:
        return True  # ordered positions only (the unordered pair is the same schedule)
    for i in range(inst["P"]):
        lo = inst["lo"] if i == 0 else 0
        hi = min(inst["hi"] if i == 0 else 10 ** 6, L + 2)
        if lo > hi or pre[i] > hi:
            return True  # beyond the end of the run: no preemption there (covered by the schedules with fewer preemptions)
        preempts.append((gate.concrete(pre[i], lo, hi), gate.concrete(a.tgt[i], 0, 1)))
    with gate.untraced():
        ok, _ = run(preempts)
    cover("ran")
    return ok


# real timedelta objects created at import time (outside CrossHair's tracing: a timedelta built on the traced main thread is
# CrossHair's own class, which the untraced timer thread's isinstance checks do not recognise)
import datetime as _dt  # noqa: E402

ONE_S = _dt.timedelta(seconds=1)
TWO_S = _dt.timedelta(seconds=2)


# ------------------------------------------------------------------ time windows: the second thread is the scheduler's timer thread
def _winst(tier):
    return [{"op": o, "seq": q, "P": 1, "gran": "coarse" if tier == "quick" else "fine"} for o in ("window_with_time", "window_with_time_or_count", "buffer_with_time", "window_with_time_overlap")
            for q in ("n_c", "n_n_c", "n_e")]


@harness(instances=_winst, p0=I(0, 200), pos=I(0, 200, n=lambda i: i["P"] - 1), tgt=I(0, 3, n=lambda i: i["P"]), timeout=(240, 1800), stock=False)
def h_window_timer(a, inst):
    """one source thread and the gated timer thread(s) of a TimeoutScheduler on the controlled clock: the window operators must
    not call the downstream observer (outer, or a window's own observer) from two threads at once"""
    from reactivex.scheduler import TimeoutScheduler
    gate.GRANULARITY = inst.get("gran", "coarse")

    def run(preempts):
        with gate.install(*LOCKMODS):
            gate.watch(m_wt, m_wtc, m_conc)
            g = gate.Gate()
            src = ThreadSource()
            down = Downstream(g)
            sch = TimeoutScheduler()
            if inst["op"] == "window_with_time":
                obs = src.pipe(ops.window_with_time(ONE_S, scheduler=sch), ops.do_action(lambda w: w.subscribe(down.on_next, down.on_error, down.on_completed)))
            elif inst["op"] == "window_with_time_overlap":
                obs = src.pipe(ops.window_with_time(TWO_S, ONE_S, scheduler=sch), ops.do_action(lambda w: w.subscribe(down.on_next, down.on_error, down.on_completed)))
            elif inst["op"] == "window_with_time_or_count":
                obs = src.pipe(ops.window_with_time_or_count(ONE_S, 2, scheduler=sch), ops.do_action(lambda w: w.subscribe(down.on_next, down.on_error, down.on_completed)))
            else:
                obs = src.pipe(ops.buffer_with_time(ONE_S, scheduler=sch))
            d = obs.subscribe(down.on_next, down.on_error, down.on_completed)
            g.spawn(lambda: src.emit(SEQS[inst["seq"]]))
            r = g.run(preempts, maxsteps=1500)
            d.dispose()
            ok = r in ("done", "deadlock", "maxsteps") and not g.errors and (not down.overlap)
            if not ok and __import__("os").environ.get("VERIF_DEBUG"):
                import traceback
                for e in g.errors.values():
                    traceback.print_exception(type(e), e, e.__traceback__, file=__import__("sys").stderr)
            return ok, g.steps

    key = ("w", inst["op"], inst["seq"], inst.get("gran"))
    if key not in _BASE:
        _BASE[key] = run([])
    ok0, L = _BASE[key]
    if not ok0:
        return False
    pre = [a.p0] + list(a.pos)
    preempts = []
    for i in range(inst["P"]):
        if pre[i] > L + 2:
            return True  # beyond the end of the run
        preempts.append((gate.concrete(pre[i], 0, L + 2), gate.concrete(a.tgt[i], 0, 3)))
    with gate.untraced():
        ok, _ = run(preempts)
    cover("ran")
    return ok


# ------------------------------------------------------------------ three source threads
def _tinst(tier):
    out = []
    for name in ("combine_latest", "zip", "merge", "with_latest_from"):
        for seqs in (("n_n_c", "n_n_c", "n_n_c"), ("n_c", "n_n_c", "n_e")):
            if tier == "quick" and seqs[0] != "n_n_c" and name != "combine_latest":
                continue
            gate.GRANULARITY = "coarse"
            L = _three(name, seqs, [])[1] + 2
            lo, acc = 0, 0
            for p in range(L + 1):
                acc += (L - p) * 4
                if acc >= 1500 or p == L:
                    out.append({"comb": name, "seqs": list(seqs), "P": 2, "lo": lo, "hi": p if p < L else 10 ** 6})
                    lo, acc = p + 1, 0
    return out


def _three(name, seqs, preempts):
    """B and C emit their first element, then wait; A waits for both, then emits: its downstream callback releases B and C, which
    emit their second element.  With the round-robin fall-back of the gate (a blocked thread hands over to the next one) a single
    preemption inside A's downstream callback lets both B and C arrive while A is still inside"""
    with gate.install(*LOCKMODS):
        gate.watch(*WATCH)
        g = gate.Gate()
        srcs = [ThreadSource(), ThreadSource(), ThreadSource()]
        down = Downstream(g)
        vals = []
        ev = [gate.GateEvent(), gate.GateEvent(), gate.GateEvent()]  # B emitted, C emitted, go
        orig = down.on_next

        def on_next(v):
            vals.append(v)
            ev[2].set()
            orig(v)
        COMB[name](srcs).subscribe(on_next, down.on_error, down.on_completed)

        def prog(i):
            seq = [(k, (i, v)) for k, v in SEQS[seqs[i]]]

            def run():
                if i == 0:
                    ev[0].wait()
                    ev[1].wait()
                    srcs[0].emit(seq)
                else:
                    srcs[i].emit(seq[:1])
                    ev[i - 1].set()
                    if name in ("combine_latest", "with_latest_from"):
                        ev[2].wait()
                    srcs[i].emit(seq[1:])
            return run
        for i in range(3):
            g.spawn(prog(i))
        r = g.run(preempts, fallback="rr")
        ok = r == "done" and not g.errors and (not down.overlap) and grammar_ok(down.log)
        if name == "combine_latest":
            # each emitted tuple differs from the previous one in exactly the slot of the source that just notified (no combination
            # is skipped or delivered twice)
            for x, y in zip(vals, vals[1:]):
                if sum(1 for u, w in zip(x, y) if u != w) != 1:
                    ok = False
        return ok, g.steps


@harness(instances=_tinst, p0=I(lambda i: i["lo"], lambda i: min(i["hi"], 400)), pos=I(0, 400, n=lambda i: i["P"] - 1), tgt=I(0, 1, n=lambda i: i["P"]),
         timeout=(240, 1800), stock=False)
def h_three_sources(a, inst):
    """three source threads, two ordered preemptions with relative targets: while one source is inside the downstream callback the
    two others can both arrive (write their slots, queue on the lock)"""
    gate.GRANULARITY = "coarse"
    key = ("3", inst["comb"], tuple(inst["seqs"]))
    if key not in _BASE:
        with gate.untraced():
            _BASE[key] = _three(inst["comb"], inst["seqs"], [])
    ok0, L = _BASE[key]
    if not ok0:
        return False
    preempts = gate.pick_schedule(a, inst, L, 2)
    if preempts is None:
        return True
    with gate.untraced():
        ok, _ = _three(inst["comb"], inst["seqs"], preempts)
    cover("ran")
    return ok


ENCODED = ["reactivex/observable/zip.py", "reactivex/observable/combinelatest.py", "reactivex/observable/withlatestfrom.py",
           "reactivex/observable/merge.py", "reactivex/operators/_merge.py", "reactivex/operators/_amb.py",
           "reactivex/internal/concurrency.py", "reactivex/observable/observable.py"]
BOUNDS = {"quick": "merge, merge_all, flat_map, zip, combine_latest, with_latest_from, amb over 2 source threads, each emitting one of 5 "
                   "short sequences (1..2 elements then completed / error, or only a terminal), 1 preemption at instruction-level "
                   "yield points inside the operator modules, internal/concurrency.py, every lock operation, and inside the downstream "
                   "callbacks", "thorough": "2 preemptions"}
BOUNDS["quick"] += ("; three source threads on combine_latest / zip / merge / with_latest_from with 2 ordered preemptions (coarse yield "
                    "points); window / buffer operators on a gated timer thread incl. overlapping windows, 1 preemption")
ASSUMES = ["gate-aware RLock shims replace the module-level lock names of the operator / observable / disposable modules",
           "the downstream observer is the user's observer passed to the public subscribe(); AutoDetachObserver takes no lock, so an "
           "overlap below it is an overlap in the user's callbacks", "window_with_time / window_with_time_or_count need the gated timer "
           "thread: see h_window_timer when present; more than 2 source threads and more than P preemptions are outside"]
MANIFEST = {
    "engine": "GT",
    "text": "Gate-serialised real threads run the real combinator code; the preemption schedule (positions at GIL-atomic granularity, "
            "lock operations and inside the downstream callbacks; targets) is a solver variable under CrossHair, so every schedule with "
            "at most P preemptions is decided: never two threads inside a downstream call at once, downstream grammar holds.",
    "note": "2 source threads; P<=1 (quick) / 2 (thorough).",
}
