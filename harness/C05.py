"""C05 — element-wise operators match their list semantics (values, termination, and emission times)."""
from reactivex import operators as ops
from reactivex.internal.exceptions import ArgumentOutOfRangeException
from reactivex.notification import OnCompleted, OnError, OnNext

from engine.api import I, harness
from engine.lib import *  # noqa: F401,F403
from engine.lib import SRC_ERR, cover, known, make_scheduler, messages, rec_tuples, same_events, times_from_gaps, falsy

# ----------------------------------------------------------------- reference models (written from the statement)
# each ref gets xs (values), ts (their times), term (0 none / 1 completed / 2 error), tt (terminal time),
# p, m (parameters) and returns the expected [(time, kind, payload)]


def _term(out, term, tt):
    if term == 1:
        out.append((tt, "C", None))
    elif term == 2:
        out.append((tt, "E", SRC_ERR))
    return out


def _elems(pairs, term, tt):
    return _term([(t, "N", v) for t, v in pairs], term, tt)


def _cut(pairs, tcut):
    """output that completes early at time tcut (the deciding element)"""
    return [(t, "N", v) for t, v in pairs] + [(tcut, "C", None)]


def r_map(xs, ts, term, tt, p, m):
    return _elems([(t, 2 * x + p) for x, t in zip(xs, ts)], term, tt)


def r_map_indexed(xs, ts, term, tt, p, m):
    return _elems([(t, x * 3 + i) for i, (x, t) in enumerate(zip(xs, ts))], term, tt)


def r_filter(xs, ts, term, tt, p, m):
    return _elems([(t, x) for x, t in zip(xs, ts) if x >= p], term, tt)


def r_filter_indexed(xs, ts, term, tt, p, m):
    return _elems([(t, x) for i, (x, t) in enumerate(zip(xs, ts)) if (x + i) % m == 0], term, tt)


def r_take(xs, ts, term, tt, p, m):
    if p == 0:
        return [(None, "C", None)]  # empty: completion, time not determined by any input
    if len(xs) >= p:
        return _cut(list(zip(ts, xs))[:p], ts[p - 1])
    return _elems(list(zip(ts, xs)), term, tt)


def r_skip(xs, ts, term, tt, p, m):
    return _elems(list(zip(ts, xs))[p:], term, tt)


def _takewhile(xs, ts, term, tt, pred, inclusive):
    out = []
    for i, (x, t) in enumerate(zip(xs, ts)):
        if pred(x, i):
            out.append((t, x))
        else:
            if inclusive:
                out.append((t, x))
            return _cut(out, t)
    return _elems(out, term, tt)


def r_take_while(xs, ts, term, tt, p, m):
    return _takewhile(xs, ts, term, tt, lambda x, i: x < p, False)


def r_take_while_incl(xs, ts, term, tt, p, m):
    return _takewhile(xs, ts, term, tt, lambda x, i: x < p, True)


def r_take_while_indexed(xs, ts, term, tt, p, m):
    return _takewhile(xs, ts, term, tt, lambda x, i: x + i < p, False)


def r_take_while_indexed_incl(xs, ts, term, tt, p, m):
    return _takewhile(xs, ts, term, tt, lambda x, i: x + i < p, True)


def _skipwhile(xs, ts, term, tt, pred):
    out, running = [], False
    for i, (x, t) in enumerate(zip(xs, ts)):
        if not running and not pred(x, i):
            running = True
        if running:
            out.append((t, x))
    return _elems(out, term, tt)


def r_skip_while(xs, ts, term, tt, p, m):
    return _skipwhile(xs, ts, term, tt, lambda x, i: x < p)


def r_skip_while_indexed(xs, ts, term, tt, p, m):
    return _skipwhile(xs, ts, term, tt, lambda x, i: x + i < p)


def r_distinct(xs, ts, term, tt, p, m):
    seen, out = [], []
    for x, t in zip(xs, ts):
        k = x % m
        if k not in seen:
            seen.append(k)
            out.append((t, x))
    return _elems(out, term, tt)


r_distinct_cmp = r_distinct  # comparer (a - b) % m == 0 induces the same classes as key x % m


def r_duc(xs, ts, term, tt, p, m):
    out, prev, has = [], None, False
    for x, t in zip(xs, ts):
        k = x % m
        if not has or k != prev:
            out.append((t, x))
        prev, has = k, True
    return _elems(out, term, tt)


r_duc_cmp = r_duc


def _near(a, b, p):
    return -p <= a - b <= p


def r_duc_near(xs, ts, term, tt, p, m):
    """non-transitive comparer |a-b| <= p: an element is compared with the last *emitted* one (Rx semantics)"""
    out, cur, has = [], None, False
    for x, t in zip(xs, ts):
        if not has or not _near(cur, x, p):
            out.append((t, x))
            cur, has = x, True
    return _elems(out, term, tt)


def r_distinct_near(xs, ts, term, tt, p, m):
    """non-transitive comparer: an element is emitted iff it is not 'equal' to any previously emitted one"""
    out = []
    for x, t in zip(xs, ts):
        if not any(_near(y, x, p) for _, y in out):
            out.append((t, x))
    return _elems(out, term, tt)


def r_pairwise(xs, ts, term, tt, p, m):
    return _elems([(ts[i + 1], (xs[i], xs[i + 1])) for i in range(len(xs) - 1)], term, tt)


def r_start_with(xs, ts, term, tt, p, m):
    return [(200, "N", p), (200, "N", m)] + _elems(list(zip(ts, xs)), term, tt)


def r_default_if_empty(xs, ts, term, tt, p, m):
    if not xs and term == 1:
        return [(tt, "N", p), (tt, "C", None)]
    return _elems(list(zip(ts, xs)), term, tt)


def r_ignore_elements(xs, ts, term, tt, p, m):
    return _term([], term, tt)


def r_take_last(xs, ts, term, tt, p, m):
    if term == 1:
        last = xs[max(0, len(xs) - p):]
        return [(tt, "N", v) for v in last] + [(tt, "C", None)]
    return _term([], term, tt)


def r_skip_last(xs, ts, term, tt, p, m):
    n = len(xs)
    return _elems([(ts[i + p], xs[i]) for i in range(n - p)], term, tt)


def r_take_last_buffer(xs, ts, term, tt, p, m):
    if term == 1:
        return [(tt, "N", list(xs[max(0, len(xs) - p):])), (tt, "C", None)]
    return _term([], term, tt)


def r_element_at(xs, ts, term, tt, p, m):
    if len(xs) > p:
        return [(ts[p], "N", xs[p]), (ts[p], "C", None)]
    if term == 1:
        return [(tt, "E", ArgumentOutOfRangeException)]
    return _term([], term, tt)


def r_element_at_or_default(xs, ts, term, tt, p, m):
    if len(xs) > p:
        return [(ts[p], "N", xs[p]), (ts[p], "C", None)]
    if term == 1:
        return [(tt, "N", None), (tt, "C", None)]
    return _term([], term, tt)


def _find(xs, ts, term, tt, p, want_index):
    for i, (x, t) in enumerate(zip(xs, ts)):
        if x + i >= p:
            return [(t, "N", i if want_index else x), (t, "C", None)]
    if term == 1:
        return [(tt, "N", -1 if want_index else None), (tt, "C", None)]
    return _term([], term, tt)


def r_find(xs, ts, term, tt, p, m):
    return _find(xs, ts, term, tt, p, False)


def r_find_index(xs, ts, term, tt, p, m):
    return _find(xs, ts, term, tt, p, True)


def r_starmap(xs, ts, term, tt, p, m):
    return _elems([(t, x * 2 + p - m) for x, t in zip(xs, ts)], term, tt)


def r_pluck(xs, ts, term, tt, p, m):
    return _elems(list(zip(ts, xs)), term, tt)


OPS = {
    "map": (lambda p, m: ops.map(lambda x: 2 * x + p), r_map),
    "map_indexed": (lambda p, m: ops.map_indexed(lambda x, i: x * 3 + i), r_map_indexed),
    "filter": (lambda p, m: ops.filter(lambda x: x >= p), r_filter),
    "filter_indexed": (lambda p, m: ops.filter_indexed(lambda x, i: (x + i) % m == 0), r_filter_indexed),
    "take": (lambda p, m: ops.take(p), r_take),
    "skip": (lambda p, m: ops.skip(p), r_skip),
    "take_while": (lambda p, m: ops.take_while(lambda x: x < p), r_take_while),
    "take_while_incl": (lambda p, m: ops.take_while(lambda x: x < p, inclusive=True), r_take_while_incl),
    "take_while_indexed": (lambda p, m: ops.take_while_indexed(lambda x, i: x + i < p), r_take_while_indexed),
    "take_while_indexed_incl": (
        lambda p, m: ops.take_while_indexed(lambda x, i: x + i < p, inclusive=True), r_take_while_indexed_incl),
    "skip_while": (lambda p, m: ops.skip_while(lambda x: x < p), r_skip_while),
    "skip_while_indexed": (lambda p, m: ops.skip_while_indexed(lambda x, i: x + i < p), r_skip_while_indexed),
    "distinct": (lambda p, m: ops.distinct(lambda x: x % m), r_distinct),
    "distinct_cmp": (lambda p, m: ops.distinct(None, lambda a, b: (a - b) % m == 0), r_distinct_cmp),
    "distinct_until_changed": (lambda p, m: ops.distinct_until_changed(lambda x: x % m), r_duc),
    "distinct_until_changed_cmp": (
        lambda p, m: ops.distinct_until_changed(None, lambda a, b: (a - b) % m == 0), r_duc_cmp),
    "distinct_until_changed_near": (lambda p, m: ops.distinct_until_changed(None, lambda a, b: _near(a, b, p)), r_duc_near),
    "distinct_near": (lambda p, m: ops.distinct(None, lambda a, b: _near(a, b, p)), r_distinct_near),
    "pairwise": (lambda p, m: ops.pairwise(), r_pairwise),
    "start_with": (lambda p, m: ops.start_with(p, m), r_start_with),
    "default_if_empty": (lambda p, m: ops.default_if_empty(p), r_default_if_empty),
    "ignore_elements": (lambda p, m: ops.ignore_elements(), r_ignore_elements),
    "take_last": (lambda p, m: ops.take_last(p), r_take_last),
    "skip_last": (lambda p, m: ops.skip_last(p), r_skip_last),
    "take_last_buffer": (lambda p, m: ops.take_last_buffer(p), r_take_last_buffer),
    "element_at": (lambda p, m: ops.element_at(p), r_element_at),
    "element_at_or_default": (lambda p, m: ops.element_at_or_default(p), r_element_at_or_default),
    "find": (lambda p, m: ops.find(lambda x, i, s: x + i >= p), r_find),
    "find_index": (lambda p, m: ops.find_index(lambda x, i, s: x + i >= p), r_find_index),
    "starmap": (lambda p, m: ops.starmap(lambda a, b: a * 2 + b), r_starmap),
    "pluck": (lambda p, m: ops.pluck("k"), r_pluck),
}


def _instances(tier):
    nmax = 3 if tier == "quick" else 4
    return [{"op": op, "N": n} for op in OPS for n in range(nmax + 1)]


def _check_events(got, exp):
    if len(exp) == 1 and exp[0][0] is None:  # take(0): only the shape is fixed by the statement
        return len(got) == 1 and got[0][1] == "C"
    return same_events(got, exp)


@harness(instances=_instances, v=I(0, 3, n=lambda i: i["N"]), g=I(0, 2, n=lambda i: i["N"]), tg=I(0, 2),
         term=I(0, 2), p=I(0, lambda i: i["N"] + 1), m=I(1, 3))
def h_elementwise(a, inst):
    build, ref = OPS[inst["op"]]
    sch = make_scheduler()
    n = inst["N"]
    xs = list(a.v)
    ts = times_from_gaps(a.g)
    last = ts[-1] if ts else 210
    tt = last + a.tg
    vals = xs
    if inst["op"] == "starmap":
        vals = [(x, a.p - a.m) for x in xs]
    elif inst["op"] == "pluck":
        vals = [{"k": x} for x in xs]
    src = sch.create_hot_observable(messages(vals, a.g, a.term, a.tg))
    pp = _conc_p(a.p) if inst["op"] in CONCRETE_P else a.p
    op = build(pp, a.m)
    res = sch.start(lambda: src.pipe(op))
    got = rec_tuples(res.messages)
    exp = ref(xs, ts, a.term, tt, pp, a.m)
    return _check_events(got, exp)


# counts that may reach C-level containers (e.g. deque(maxlen=count)) are realised by branching: a symbolic int there is an engine
# artefact (TypeError inside CrossHair only), not a verdict
CONCRETE_P = {"take_last", "skip_last", "take_last_buffer"}


def _conc_p(x):
    for c in range(-1, 6):
        if x == c:
            return c
    return x


# ----------------------------------------------------------------- falsy values through the value-agnostic ones
FALSY_OPS = ["take", "skip", "pairwise", "take_last", "skip_last", "take_last_buffer", "element_at",
             "default_if_empty", "ignore_elements", "start_with"]


def _finst(tier):
    nmax = 2 if tier == "quick" else 3
    return [{"op": op, "N": n} for op in FALSY_OPS for n in range(1, nmax + 1)]


@harness(instances=_finst, v=I(0, 9, n=lambda i: i["N"]), term=I(1, 2), p=I(0, lambda i: i["N"] + 1),
         d=I(0, lambda i: 9 if i["op"] in ("default_if_empty", "start_with") else 0))
def h_falsy(a, inst):
    """same reference models, elements drawn from the falsy domain, fixed spacing"""
    build, ref = OPS[inst["op"]]
    sch = make_scheduler()
    xs = [falsy(i) for i in a.v]
    n = inst["N"]
    g = [1] * n
    ts = times_from_gaps(g)
    tt = (ts[-1] if ts else 210) + 1
    src = sch.create_hot_observable(messages(xs, g, a.term, 1))
    if inst["op"] == "skip_last" and known("C08-skiplast-none", True):
        for x in xs:
            if x is None:
                return True
    dv = falsy(a.d)
    pp = _conc_p(a.p) if inst["op"] in CONCRETE_P else a.p
    op = build(dv if inst["op"] in ("default_if_empty", "start_with") else pp, dv)
    res = sch.start(lambda: src.pipe(op))
    got = rec_tuples(res.messages)
    exp = ref(xs, ts, a.term, tt, dv if inst["op"] in ("default_if_empty", "start_with") else pp, dv)
    return _check_events(got, exp)


# ----------------------------------------------------------------- materialize / dematerialize
def _minst(tier):
    return [{"N": n} for n in range(0, (3 if tier == "quick" else 4) + 1)]


@harness(instances=_minst, v=I(0, 3, n=lambda i: i["N"]), g=I(0, 2, n=lambda i: i["N"]), tg=I(0, 2), term=I(0, 2))
def h_materialize(a, inst):
    sch = make_scheduler()
    xs = list(a.v)
    ts = times_from_gaps(a.g)
    tt = (ts[-1] if ts else 210) + a.tg
    src = sch.create_hot_observable(messages(xs, a.g, a.term, a.tg))
    res = sch.start(lambda: src.pipe(ops.materialize()))
    got = rec_tuples(res.messages)
    exp = [(t, "N", OnNext(x)) for x, t in zip(xs, ts)]
    if a.term == 1:
        exp += [(tt, "N", OnCompleted()), (tt, "C", None)]
    elif a.term == 2:
        exp += [(tt, "N", OnError(SRC_ERR)), (tt, "C", None)]
    if len(got) != len(exp):
        return False
    for (t1, k1, p1), (t2, k2, p2) in zip(got, exp):
        if t1 != t2 or k1 != k2:
            return False
        if k1 == "N":
            if p1.kind != p2.kind:
                return False
            if p1.kind == "N" and p1.value != p2.value:
                return False
            if p1.kind == "E" and p1.exception is not SRC_ERR:
                return False
    # round trip: dematerialize(materialize(xs)) == xs
    sch2 = make_scheduler()
    src2 = sch2.create_hot_observable(messages(xs, a.g, a.term, a.tg))
    res2 = sch2.start(lambda: src2.pipe(ops.materialize(), ops.dematerialize()))
    from engine.lib import expected_events
    return same_events(rec_tuples(res2.messages), expected_events(xs, a.g, a.term, a.tg))


@harness(instances=_minst, k=I(0, 2, n=lambda i: i["N"]), v=I(0, 3, n=lambda i: i["N"]), term=I(0, 2))
def h_dematerialize(a, inst):
    """a symbolic list of notification objects; output = the notifications up to and including the first terminal one"""
    sch = make_scheduler()
    n = inst["N"]
    notes = []
    for k, v in zip(a.k, a.v):
        notes.append(OnNext(v) if k == 0 else (OnCompleted() if k == 1 else OnError(SRC_ERR)))
    g = [1] * n
    ts = times_from_gaps(g)
    tt = (ts[-1] if ts else 210) + 1
    src = sch.create_hot_observable(messages(notes, g, a.term, 1))
    res = sch.start(lambda: src.pipe(ops.dematerialize()))
    got = rec_tuples(res.messages)
    exp = []
    done = False
    for k, v, t in zip(a.k, a.v, ts):
        if k == 0:
            exp.append((t, "N", v))
        elif k == 1:
            exp.append((t, "C", None))
            done = True
            break
        else:
            exp.append((t, "E", SRC_ERR))
            done = True
            break
    if not done:
        if a.term == 1:
            exp.append((tt, "C", None))
        elif a.term == 2:
            exp.append((tt, "E", SRC_ERR))
    return same_events(got, exp)


ENCODED = ["reactivex/operators/_map.py", "reactivex/operators/_filter.py", "reactivex/operators/_take.py",
           "reactivex/operators/_skip.py", "reactivex/operators/_takewhile.py", "reactivex/operators/_skipwhile.py",
           "reactivex/operators/_distinct.py", "reactivex/operators/_distinctuntilchanged.py",
           "reactivex/operators/_pairwise.py", "reactivex/operators/_takelast.py", "reactivex/operators/_skiplast.py",
           "reactivex/operators/_takelastbuffer.py", "reactivex/operators/_elementatordefault.py",
           "reactivex/operators/_find.py", "reactivex/operators/_materialize.py", "reactivex/operators/_dematerialize.py",
           "reactivex/notification.py", "reactivex/observable/observable.py", "reactivex/scheduler/virtualtimescheduler.py",
           "reactivex/testing/hotobservable.py"]
BOUNDS = {"quick": "N<=3 elements, values in [0,3], gaps in [0,2] ticks (0 = same instant), terminal none/completed/error, "
                   "parameter p in [0,N+1], modulus m in [1,3]; falsy domain of 10 values with N<=2",
          "thorough": "N<=4 elements (falsy domain N<=3), otherwise as quick"}
ASSUMES = ["Tick/Span time stub: TestScheduler.to_datetime/to_timedelta/to_seconds replaced by int wrappers (DESIGN §2.1); "
           "every confirmed instance is also sampled concretely on the stock TestScheduler",
           "user callbacks are the families x>=p, x<p, (x+i)%m==0, 2x+p, x%m, (a-b)%m==0 and the non-transitive comparer |a-b|<=p",
           "take(0): only 'completes without elements' is required (no input determines its time)"]
MANIFEST = {
    "text": "Bounded symbolic model checking: for each of the 31 element-wise operator forms and each input length, the real operator "
            "runs on a hot test observable whose values, gaps, terminal kind/time and operator parameter are solver variables; the "
            "recorded (time, notification) list is compared with a list-computation reference model; CrossHair exhausts the path tree "
            "('Confirmed over all paths'), so the claim holds for every value within the bounds, not for samples.",
    "note": "Bounds as in evidence.bounds; Tick time stub; callbacks from linear families; values ints and the 10-element falsy domain.",
}
