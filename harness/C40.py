"""C40 — resources and finally-actions are released exactly once."""
import reactivex
from reactivex import operators as ops
from reactivex.disposable import Disposable

from engine.api import I, harness, cover
from engine.lib import SRC_ERR, Injected, expected_events, make_scheduler, messages, rec_tuples, same_events, times_from_gaps

F_ERR = Injected("factory")


class Res:
    """counting resource; `falsy` makes it evaluate to False (like an empty CompositeDisposable, which defines __len__)"""

    def __init__(self, sch, falsy):
        self.sch, self.falsy, self.disposed_at = sch, falsy, []

    def __len__(self):
        return 0 if self.falsy else 1

    def dispose(self):
        self.disposed_at.append(self.sch.clock)


def _term_time(a, n):
    ts = times_from_gaps(a.g)
    return (ts[-1] if ts else 210) + a.tg


@harness(instances=lambda tier: [{"N": n, "exc": e, "falsy": f} for n in ((0, 1, 2) if tier == "quick" else (0, 1, 2, 3)) for e in ("none", "resource", "observable", "teardown") for f in (0, 1)],
         v=I(0, 1, n=lambda i: i["N"]), g=I(0, 2, n=lambda i: i["N"]), tg=I(0, 2), term=I(0, 2), D=I(201, 220), timeout=(90, 600))
def h_using(a, inst):
    n = inst["N"]
    sch = make_scheduler()
    src = sch.create_hot_observable(messages(list(a.v), a.g, a.term, a.tg))
    made = []
    if inst["exc"] == "teardown":
        # releasing the inner subscription raises: the resource must still be released exactly once (as finally_action guarantees
        # for its action), whatever happens to the teardown exception
        hot, boom = src, Injected("teardown")

        def subscribe(observer, scheduler=None):
            d = hot.subscribe(observer, scheduler=scheduler)

            def dispose():
                d.dispose()
                raise boom
            return Disposable(dispose)
        src = reactivex.create(subscribe)

    def resource_factory():
        if inst["exc"] == "resource":
            raise F_ERR
        r = Res(sch, inst["falsy"])
        made.append(r)
        return r

    def observable_factory(r):
        if inst["exc"] == "observable":
            raise F_ERR
        return src

    tt = _term_time(a, n)
    if inst["exc"] == "teardown":
        try:
            sch.start(lambda: reactivex.using(resource_factory, observable_factory), disposed=a.D)
        except Injected:
            pass
        end = min(tt, a.D) if a.term != 0 else a.D
        cover("ran")
        return len(made) == 1 and made[0].disposed_at == [end]
    res = sch.start(lambda: reactivex.using(resource_factory, observable_factory), disposed=a.D)
    ev = rec_tuples(res.messages)
    if inst["exc"] == "resource":
        return made == [] and len(ev) == 1 and ev[0][1] == "E" and ev[0][2] is F_ERR
    if len(made) != 1:
        return False
    r = made[0]
    if inst["exc"] == "observable":
        # building the inner observable failed: the resource is released (once), the failure is delivered
        return len(ev) == 1 and ev[0][1] == "E" and ev[0][2] is F_ERR and len(r.disposed_at) == 1 and r.disposed_at[0] <= a.D
    end = min(tt, a.D) if a.term != 0 else a.D
    cover("ran")
    return r.disposed_at == [end]


def _final(form):
    if form == "do_finally":
        from reactivex.operators._do import do_finally
        return do_finally
    return ops.finally_action


@harness(instances=lambda tier: [{"N": n, "src": s, "form": f} for n in ((0, 1, 2) if tier == "quick" else (0, 1, 2, 3)) for s in ("hot", "raising_teardown", "sync")
                                 for f in ("finally_action", "do_finally")],
         v=I(0, 1, n=lambda i: i["N"]), g=I(0, 2, n=lambda i: i["N"]), tg=I(0, 2), term=I(0, 2), D=I(201, 220), timeout=(90, 600))
def h_finally(a, inst):
    """the action runs exactly once per subscription, after the terminal notification or at disposal -- also when tearing down the
    upstream raises"""
    n = inst["N"]
    sch = make_scheduler()
    count = []
    term_seen = []
    boom = Injected("teardown")
    if inst["src"] == "hot":
        src = sch.create_hot_observable(messages(list(a.v), a.g, a.term, a.tg))
    elif inst["src"] == "sync":
        src = reactivex.from_iterable(list(a.v)) if a.term != 2 else reactivex.throw(SRC_ERR)
    else:
        hot = sch.create_hot_observable(messages(list(a.v), a.g, a.term, a.tg))

        def subscribe(observer, scheduler=None):
            d = hot.subscribe(observer, scheduler=scheduler)

            def dispose():
                d.dispose()
                raise boom
            return Disposable(dispose)
        src = reactivex.create(subscribe)
    obs = src.pipe(_final(inst.get("form", "finally_action"))(lambda: count.append(sch.clock)))
    escaped = None
    try:
        res = sch.start(lambda: obs.pipe(ops.do_action(None, lambda e: term_seen.append(sch.clock), lambda: term_seen.append(sch.clock))),
                        disposed=a.D)
    except Injected as e:
        escaped = e
        res = None
    if inst["src"] == "raising_teardown":
        # whatever happens to the teardown exception, the action must have run exactly once
        return len(count) == 1
    if escaped is not None:
        return False
    cover("ran")
    if len(count) != 1:
        return False
    if inst["src"] == "hot":
        tt = _term_time(a, n)
        end = min(tt, a.D) if a.term != 0 else a.D
        return count[0] == end
    return True


DO = {
    "do_action": lambda f, g, h: ops.do_action(f, g, h),
    "do": lambda f, g, h: ops.do(reactivex.Observer(f, g, h)),
    "tap_next_only": lambda f, g, h: ops.do_action(f),
}


@harness(instances=lambda tier: [{"N": n, "var": v} for n in (0, 1, 2, 3) for v in DO],
         v=I(0, 2, n=lambda i: i["N"]), g=I(0, 2, n=lambda i: i["N"]), tg=I(0, 2), term=I(0, 2), k=I(0, 5), timeout=(90, 600))
def h_do(a, inst):
    """do_action observes every notification without changing the sequence, unless a callback raises (then on_error with it)"""
    n = inst["N"]
    sch = make_scheduler()
    xs = list(a.v)
    src = sch.create_hot_observable(messages(xs, a.g, a.term, a.tg))
    seen, calls = [], [0]
    boom = Injected("cb")

    def tickc():
        calls[0] += 1
        if a.k and calls[0] == a.k:
            raise boom

    def f(v):
        seen.append(("N", v))
        tickc()

    def g(e):
        seen.append(("E", e))
        tickc()

    def h():
        seen.append(("C", None))
        tickc()

    res = sch.start(lambda: src.pipe(DO[inst["var"]](f, g, h)), disposed=260)
    ev = rec_tuples(res.messages)
    full = expected_events(xs, a.g, a.term, a.tg)
    if inst["var"] == "tap_next_only":
        observed = [e for e in full if e[1] == "N"]
    else:
        observed = full
    fired = bool(a.k) and len(observed) >= a.k
    if not fired:
        return same_events(ev, full) and seen == [(k, p) for _, k, p in observed]
    # the k-th observed notification made the callback raise: everything before it is forwarded unchanged, then on_error(boom)
    t_fail = observed[a.k - 1][0]
    idx, seen_n = 0, 0
    for pos, e in enumerate(full):
        if inst["var"] != "tap_next_only" or e[1] == "N":
            seen_n += 1
            if seen_n == a.k:
                idx = pos
                break
    want = full[:idx] + [(t_fail, "E", boom)]
    cover("fired")
    return same_events(ev, want)


@harness(instances=lambda tier: [{"form": f} for f in ("finally_action", "do_finally")], g=I(0, 2), term=I(0, 2), d1=I(0, 6), d2=I(0, 6),
         timeout=(60, 600))
def h_finally_twice(a, inst):
    """the same observable subscribed twice (at 200 and at 230, each disposed after d ticks unless it terminated first): the action
    runs once for each subscription, at that subscription's own end"""
    sch = make_scheduler()
    runs = []
    from engine.lib import on_completed, on_error, on_next
    msgs = [on_next(1, 1)]
    if a.term == 1:
        msgs.append(on_completed(2 + a.g))
    elif a.term == 2:
        msgs.append(on_error(2 + a.g, SRC_ERR))
    src = sch.create_cold_observable(msgs)
    obs = src.pipe(_final(inst["form"])(lambda: runs.append(sch.clock)))
    ends = []
    for start, d in ((200, a.d1), (230, a.d2)):
        h = [None]
        sch.schedule_absolute(start, (lambda h: lambda s, st: h.__setitem__(0, obs.subscribe(lambda v: None, lambda e: None, scheduler=s)))(h))
        sch.schedule_absolute(start + 1 + d, (lambda h: lambda s, st: h[0].dispose())(h))
        end = start + 1 + d
        if a.term != 0 and start + 2 + a.g < end:
            end = start + 2 + a.g
        ends.append(end)
    sch.advance_to(260)
    cover("ran")
    return runs == ends


ENCODED = ["reactivex/observable/using.py", "reactivex/operators/_finallyaction.py", "reactivex/operators/_do.py"]
BOUNDS = {"quick": "inner timelines of 0..2 (do_action: 0..3) elements, gaps in [0,2], terminal none/completed/error, dispose instant in "
                   "[201,220] (before, at and after the termination instant), exception in the resource factory / observable factory / "
                   "a do_action callback at its k-th call (k in 1..5), truthy and falsy resources, an upstream whose teardown raises (finally_action / do_finally, and using())",
          "thorough": "using / finally_action / do_finally over sources with up to 3 elements; the rest as in the quick tier"}
ASSUMES = ["Tick/Span time stub", "do_finally is imported from reactivex.operators._do (it is not re-exported); both forms are checked"]
MANIFEST = {
    "text": "Bounded symbolic model checking: timelines, dispose instant and exception positions are solver variables; the resource's "
            "dispose count must be exactly 1 (0 when the resource factory failed) at min(termination, dispose), the finally action "
            "must run exactly once at that instant (also when the upstream teardown raises), and do_action must leave the sequence "
            "unchanged unless a callback raises.",
    "note": "N<=2/3; dispose within 20 ticks.",
}
