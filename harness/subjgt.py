"""Shared GT scenario for the subjects: a subscriber thread racing a producer thread (used by C20gt / C21gt / C23gt)."""
import reactivex.subject.asyncsubject as m_async
import reactivex.subject.behaviorsubject as m_beh
import reactivex.subject.innersubscription as m_inner
import reactivex.subject.subject as m_subj
import reactivex.observer.observer as m_observer
import reactivex.subject.replaysubject as m_replay
import reactivex.observer.scheduledobserver as m_so
import reactivex.scheduler.trampoline as m_tramp
import reactivex.scheduler.currentthreadscheduler as m_cts
import reactivex.scheduler.trampolinescheduler as m_ts
import reactivex.disposable.serialdisposable as m_ser
import reactivex.disposable.singleassignmentdisposable as m_sad
from reactivex.subject import AsyncSubject, BehaviorSubject, ReplaySubject, Subject

from engine import gate
from engine.api import cover
from engine.lib import Injected

ERR = Injected("src")
SEQ = {"n_n_c": [("N", 1), ("N", 2), ("C", None)], "n_e": [("N", 1), ("E", None)], "c": [("C", None)], "e": [("E", None)]}
MODS = [m_subj, m_async, m_beh, m_inner, m_replay, m_so, m_tramp, m_cts, m_ts, m_ser, m_sad]


def outcomes(kind, seq):
    """what a subscriber may receive: the sequential outcomes of subscribing at any point of the producer's sequence"""
    evs = [(k, v) for k, v in seq]
    out = []
    for cut in range(len(evs) + 1):
        before, after = evs[:cut], evs[cut:]
        vals = [v for k, v in before if k == "N"]
        term = [e for e in before if e[0] != "N"]
        if kind == "subject":
            got = [term[0]] if term else list(after)
        elif kind == "behavior":
            got = [term[0]] if term else [("N", vals[-1] if vals else 0)] + list(after)
        elif kind == "replay":
            got = list(evs)  # unbounded buffer: everything, whenever the subscription happens
        else:  # async
            allv = [v for k, v in evs if k == "N"]
            t = [e for e in evs if e[0] != "N"][0]
            got = [t] if t[0] == "E" else ([("N", allv[-1])] if allv else []) + [t]
        if got not in out:
            out.append(got)
    return out


class Down:
    def __init__(self, g):
        self.g, self.log, self.inside, self.overlap = g, [], 0, False

    def _e(self, k, v):
        if self.inside:
            self.overlap = True
        self.inside += 1
        self.log.append((k, v))
        idx = self.g.me()
        if idx is not None:
            self.g.yield_point(idx, "downstream")
        self.inside -= 1

    def on_next(self, v):
        self._e("N", v)

    def on_error(self, e):
        self._e("E", None)

    def on_completed(self):
        self._e("C", None)


def run_once(kind, seqname, preempts, unsub=False, sub_first=False):
    seq = SEQ[seqname]
    with gate.install(*MODS):
        gate.watch(m_subj, m_async, m_beh, m_observer, m_inner, *([m_replay, m_so] if kind == "replay" else []))
        g = gate.Gate()
        s = {"subject": Subject, "behavior": lambda: BehaviorSubject(0), "async": AsyncSubject, "replay": ReplaySubject}[kind]()
        early, late = Down(g), Down(g)
        s.subscribe(early.on_next, early.on_error, early.on_completed)

        def producer():
            for k, v in seq:
                if k == "N":
                    s.on_next(v)
                elif k == "C":
                    s.on_completed()
                else:
                    s.on_error(ERR)

        def subscriber():
            if unsub:
                # the late subscriber unsubscribes again at once: it may see any prefix of a sequential outcome
                s.subscribe(late.on_next, late.on_error, late.on_completed).dispose()
            else:
                s.subscribe(late.on_next, late.on_error, late.on_completed)

        # which thread starts first decides which interleavings are within reach of 2 preemptions
        for body in ((subscriber, producer) if sub_first else (producer, subscriber)):
            g.spawn(body)
        r = g.run(preempts, maxsteps=2000)
        ok = r == "done" and not g.errors
        full = outcomes(kind, seq)[0]  # a subscriber present from the start
        allowed = outcomes(kind, seq)
        if unsub:
            allowed = [o[:n] for o in allowed for n in range(len(o) + 1)]
        ok = ok and early.log == full and late.log in allowed
        if not ok and __import__("os").environ.get("VERIF_DEBUG"):
            print("DEBUG", r, g.errors, early.log, late.log, outcomes(kind, seq), file=__import__("sys").stderr)
        return ok, g.steps


_BASE = {}


def harness_body(kind, a, inst):
    gate.GRANULARITY = inst.get("gran", "fine")
    key = (kind, inst["seq"], gate.GRANULARITY, inst.get("unsub", 0), inst.get("sf", 0))
    if key not in _BASE:
        with gate.untraced():
            _BASE[key] = run_once(kind, inst["seq"], [], bool(inst.get("unsub")), bool(inst.get("sf")))
    ok0, L = _BASE[key]
    if not ok0:
        return False
    pre = [a.p0] + list(a.pos)
    if inst["P"] > 1 and pre[1] <= pre[0]:
        return True
    preempts = []
    for i in range(inst["P"]):
        lo = inst["lo"] if i == 0 else 0
        hi = min(inst["hi"] if i == 0 else 100000, L + 2)
        if lo > hi or pre[i] > hi:
            return True  # beyond the end of the run
        preempts.append((gate.concrete(pre[i], lo, hi), -1))
    with gate.untraced():
        ok, _ = run_once(kind, inst["seq"], preempts, bool(inst.get("unsub")), bool(inst.get("sf")))
    cover("ran")
    return ok


def instances_for(kind):
    def instances(tier):
        out = []
        gran = "coarse" if kind == "replay" else "fine"  # replay: scheduled observers and trampolines make fine-grained runs long
        gate.GRANULARITY = gran
        combos = [(q, u, 0) for q in SEQ for u in (0, 1)] + [("n_n_c", 0, 1), ("n_e", 0, 1)]  # last two: the subscriber thread starts first
        for q, unsub, sf in combos:
            L = run_once(kind, q, [], bool(unsub), bool(sf))[1] + 2
            P = 1 if (kind == "replay" and tier == "quick" and q in ("n_n_c", "n_e")) else 2
            if P == 1:
                out.append({"seq": q, "unsub": unsub, "sf": sf, "P": 1, "gran": gran, "lo": 0, "hi": 100000})
                continue
            lo, acc = 0, 0
            for p in range(L + 1):
                acc += L - p
                if acc >= (500 if tier == "quick" else 1500) or p == L:
                    out.append({"seq": q, "unsub": unsub, "sf": sf, "P": 2, "gran": gran, "lo": lo, "hi": p if p < L else 100000})
                    lo, acc = p + 1, 0
        return out
    return instances
