"""C20 — a Subject broadcasts to exactly the observers subscribed at the time."""
from reactivex.subject import Subject

from engine.api import I, harness
from harness.subjects import NOPS, RefSubject, equal_snap, history_instances, history_ops, hlen, run_history


@harness(instances=lambda tier: history_instances(tier, quick_len=5), h=I(0, NOPS - 1, n=hlen), timeout=(90, 900))
def h_subject(a, inst):
    ops = history_ops(inst, a.h)
    real, ref = run_history(Subject, lambda: RefSubject("subject"), ops)
    return equal_snap(real, ref)


EXTRA_MODULES = ["harness.C20gt"]  # threads: a subscriber racing the producer (gate threads)
ENCODED = ["reactivex/subject/subject.py", "reactivex/subject/innersubscription.py", "reactivex/observer/observer.py",
           "reactivex/observer/autodetachobserver.py", "reactivex/observable/observable.py"]
BOUNDS = {"quick": "every call history of length 5 over the 12-op alphabet (subscribe/unsubscribe of 2 observers, on_next, on_error, "
                   "on_completed, dispose, 4 one-shot in-callback actions: unsubscribe self / other, subscribe a third observer); threads (GT): a subscriber thread (subscribe, or subscribe and unsubscribe at once) racing a producer thread over 4 sequences, 2 ordered preemptions at instruction-level yield points of the subject modules",
          "thorough": "length 6"}
ASSUMES = ["threads: gate-aware RLock shims; the late subscriber must receive one of the sequential outcomes (a prefix of one when it unsubscribes), the early subscriber everything, nothing may raise", "reference subject written from the statement: delivery to the snapshot of subscribers at call time; an observer "
           "unsubscribed by an earlier callback of the same delivery is not called (C03: unsubscribing silences); an observer "
           "subscribed during a delivery does not get that notification",
           "a DisposedException raised by subscribe() and one routed to the observer's on_error are treated as the same fact",
           "single thread; in-callback actions limited to the three listed; no re-entrant emission"]
MANIFEST = {
    "engine": "XH+GT",
    "text": "Bounded symbolic model checking over call histories: the history is a list of solver-chosen op codes, executed on the real "
            "Subject and on a reference subject written from the statement; per-observer logs and exceptions must agree; the path tree "
            "(one path per distinguishable history) is exhausted.",
    "note": "History length 5 (quick) / 6 (thorough); 3 observers; values are fresh ints.",
}
