"""C17 — time-window operators respect their window boundaries."""
from reactivex import operators as ops

from engine.api import I, harness, cover, known
from engine.lib import SRC_ERR, Injected, make_scheduler, messages, rec_tuples, same_events, times_from_gaps

OTHER_ERR = Injected("other")


def _term(out, term, tt):
    if term == 1:
        out.append((tt, "C", None))
    elif term == 2:
        out.append((tt, "E", SRC_ERR))
    return out


def _setup(a, n):
    xs = [10 + i for i in range(n)]
    ts = times_from_gaps(a.g)
    tt = (ts[-1] if ts else 210) + a.tg
    return xs, ts, tt


# boundary B = 200 + d relative to subscription.  The sources are hot: their messages were scheduled before the operator's
# timer, so a notification stamped exactly B is delivered before the boundary action (FIFO, C28) and counts as "before".
def ref_take(xs, ts, term, tt, B):
    out = [(t, "N", x) for x, t in zip(xs, ts) if t <= B and (term == 0 or t <= tt)]
    if term != 0 and tt <= B:
        return _term(out, term, tt)
    out.append((B, "C", None))
    return out


def ref_skip(xs, ts, term, tt, B):
    return _term([(t, "N", x) for x, t in zip(xs, ts) if t > B], term, tt)


WIN = {
    "take_with_time": (lambda d: ops.take_with_time(d), ref_take),
    "take_until_with_time": (lambda d: ops.take_until_with_time(d), ref_take),
    "skip_with_time": (lambda d: ops.skip_with_time(d), ref_skip),
    "skip_until_with_time": (lambda d: ops.skip_until_with_time(d), ref_skip),
}


def _winst(tier):
    nm = 3 if tier == "quick" else 4
    return [{"op": o, "N": n} for o in WIN for n in range(0, nm + 1)]


@harness(instances=_winst, g=I(0, 4, n=lambda i: i["N"]), tg=I(0, 4), term=I(0, 2), d=I(1, 16), timeout=(90, 900))
def h_window(a, inst):
    """elements before / at / after the boundary 200 + d (first element at 210 + g0, so d ranges over 1..16)"""
    n = inst["N"]
    xs, ts, tt = _setup(a, n)
    sch = make_scheduler()
    src = sch.create_hot_observable(messages(xs, a.g, a.term, a.tg))
    build, ref = WIN[inst["op"]]
    res = sch.start(lambda: src.pipe(build(a.d)), disposed=260)
    return same_events(rec_tuples(res.messages), ref(xs, ts, a.term, tt, 200 + a.d))


@harness(instances=lambda tier: [{"pair": p, "N": n} for p in ("with_time", "until_with_time") for n in range(0, (3 if tier == "quick" else 4) + 1)],
         g=I(0, 4, n=lambda i: i["N"]), tg=I(0, 4), term=I(1, 2), d=I(1, 16), timeout=(90, 900))
def h_partition(a, inst):
    """relational oracle that needs no choice of strictness: take*(d) and skip*(d) partition the source's elements"""
    n = inst["N"]
    xs, ts, tt = _setup(a, n)
    outs = []
    for which in ("take", "skip"):
        sch = make_scheduler()
        src = sch.create_hot_observable(messages(xs, a.g, a.term, a.tg))
        op = getattr(ops, which + "_" + inst["pair"])(a.d)
        res = sch.start(lambda: src.pipe(op), disposed=260)
        outs.append([p for _, k, p in rec_tuples(res.messages) if k == "N"])
    return outs[0] + outs[1] == xs


# ------------------------------------------------------------------ take_last_with_time / skip_last_with_time
def _linst(tier):
    nm = 3 if tier == "quick" else 4
    return [{"op": o, "N": n} for o in ("take_last_with_time", "skip_last_with_time") for n in range(0, nm + 1)]


@harness(instances=_linst, g=I(0, 3, n=lambda i: i["N"]), tg=I(0, 3), term=I(0, 2), d=I(1, 5), timeout=(90, 900))
def h_last(a, inst):
    """age of element e at completion T is T - t_e.  take_last_with_time emits at T exactly the elements younger than d,
    skip_last_with_time the others (each as soon as it is d old: at the first later notification not before t_e + d)"""
    n = inst["N"]
    xs, ts, tt = _setup(a, n)
    sch = make_scheduler()
    src = sch.create_hot_observable(messages(xs, a.g, a.term, a.tg))
    op = getattr(ops, inst["op"])(a.d)
    res = sch.start(lambda: src.pipe(op), disposed=260)
    got = rec_tuples(res.messages)
    if inst["op"] == "take_last_with_time":
        if a.term == 1:
            exp = [(tt, "N", x) for x, t in zip(xs, ts) if tt - t < a.d] + [(tt, "C", None)]
        else:
            exp = _term([], a.term, tt)
        return same_events(got, exp)
    # skip_last_with_time
    events = list(ts) + ([tt] if a.term == 1 else [])
    exp = []
    for x, t in zip(xs, ts):
        when = None
        for e in events:
            if e >= t + a.d and e >= t:
                when = e
                break
        if when is not None and (a.term != 2 or when < tt or when in ts):
            exp.append((when, "N", x))
    exp.sort(key=lambda e: e[0])
    _term(exp, a.term, tt)
    return same_events(got, exp)


@harness(instances=lambda tier: [{"N": n} for n in range(1, (3 if tier == "quick" else 4) + 1)],
         g=I(0, 3, n=lambda i: i["N"]), tg=I(0, 3), d=I(1, 5), extra=I(0, 12), timeout=(90, 900))
def h_last_unrelated(a, inst):
    """two-run relational oracle: whether an element is among take_last_with_time's output may depend only on its age at
    completion; inserting an unrelated extra element at a solver-chosen instant must not change the verdict for the others"""
    n = inst["N"]
    xs, ts, tt = _setup(a, n)

    def run(with_extra):
        sch = make_scheduler()
        msgs = messages(xs, a.g, 1, a.tg)
        if with_extra:
            from engine.lib import on_next
            te = 210 + a.extra
            if te > tt:
                return None
            msgs.append(on_next(te, 99))
            msgs.sort(key=lambda m: m.time)
        src = sch.create_hot_observable(msgs)
        res = sch.start(lambda: src.pipe(ops.take_last_with_time(a.d)), disposed=260)
        return [p for _, k, p in rec_tuples(res.messages) if k == "N" and p != 99]

    base = run(False)
    ext = run(True)
    if ext is None:
        return True
    cover("extra")
    return base == ext


# ------------------------------------------------------------------ timeout
def _tinst(tier):
    nm = 2 if tier == "quick" else 3
    return [{"N": n, "M": m, "other": o, "_timeout": 240 if (tier == "quick" and n == nm and o) else (90 if tier == "quick" else 900)}
            for n in range(0, nm + 1) for o in (0, 1) for m in ((0, 1) if o else (0,))]


@harness(instances=_tinst, g=I(0, 4, n=lambda i: i["N"]), tg=I(0, 4), term=I(0, 2), d=I(1, 4),
         h=I(0, 8, n=lambda i: i["M"]), timeout=(90, 900))
def h_timeout(a, inst):
    """first element at 200 + 1 + g0 so that the first gap can be below / equal / above the due time"""
    n = inst["N"]
    xs = [10 + i for i in range(n)]
    ts = times_from_gaps(a.g, base=201)
    tt = (ts[-1] if ts else 201) + a.tg
    sch = make_scheduler()
    src = sch.create_hot_observable(messages(xs, a.g, a.term, a.tg, base=201))
    ys = [50 + i for i in range(inst["M"])]
    us = times_from_gaps(a.h, base=202)
    other = sch.create_hot_observable(messages(ys, a.h, 1, 1, base=202, err=OTHER_ERR)) if inst["other"] else None
    op = ops.timeout(a.d, other) if other is not None else ops.timeout(a.d)
    res = sch.start(lambda: src.pipe(op), disposed=260)
    got = rec_tuples(res.messages)
    # reference: the timer runs from subscription / the last element; a notification stamped exactly at the deadline was
    # scheduled earlier and wins (FIFO); after the source terminated nothing can time out
    exp, last, switch = [], 200, None
    for x, t in zip(xs, ts):
        if t > last + a.d:
            switch = last + a.d
            break
        exp.append((t, "N", x))
        last = t
    if switch is None:
        if a.term != 0 and tt <= last + a.d:
            _term(exp, a.term, tt)
            return same_events(got, exp)
        switch = last + a.d
    if other is None:
        if len(got) != len(exp) + 1:
            return False
        return same_events(got[:-1], exp) and got[-1][0] == switch and got[-1][1] == "E" and str(got[-1][2]) == "Timeout"
    exp += [(u, "N", y) for y, u in zip(ys, us) if u > switch or (u == switch and False)]
    uend = (us[-1] if us else 202) + 1
    if uend > switch:
        exp.append((uend, "C", None))
    elif uend <= switch:
        pass  # the hot fallback had already completed before the switch: nothing more arrives
    return same_events(got, exp)


ENCODED = ["reactivex/operators/_takewithtime.py", "reactivex/operators/_skipwithtime.py", "reactivex/operators/_takelastwithtime.py",
           "reactivex/operators/_skiplastwithtime.py", "reactivex/operators/_takeuntilwithtime.py",
           "reactivex/operators/_skipuntilwithtime.py", "reactivex/operators/_timeout.py", "reactivex/scheduler/virtualtimescheduler.py"]
BOUNDS = {"quick": "N<=3 elements (timeout N<=2 + fallback M<=1), gaps in [0,4] (last-with-time [0,3]), boundary d in [1,16] ticks after "
                   "subscription so every element can be before / at / after it; durations d in [1,5]; due times d in [1,4]; "
                   "an unrelated extra element at any of 13 instants for the two-run relational oracle",
          "thorough": "N<=4 (timeout 3 + fallback 1)"}
ASSUMES = ["Tick/Span time stub; relative boundaries (the absolute-datetime forms of take/skip_until_with_time and timeout are outside: "
           "DESIGN §5)", "hot sources: a notification stamped exactly at a boundary / deadline was scheduled before the operator's timer "
           "and is delivered first (FIFO among equal due times, C28); the take/skip partition oracle needs no such choice",
           "'younger than the duration' is read strictly (age < d), matching skip_last_with_time's 'not younger' (age >= d)"]
MANIFEST = {
    "text": "Bounded symbolic model checking: element times around every boundary (before / at / after), durations and terminal "
            "kind/time are solver variables; per-operator reference rules, the take/skip partition relation and the two-run "
            "'unrelated arrival' relation must hold on every path.",
    "note": "N<=3; relative boundaries only.",
}
