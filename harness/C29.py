"""C29 — virtual-time runs always finish."""
import threading
from datetime import timedelta

from reactivex.scheduler import HistoricalScheduler, VirtualTimeScheduler
from reactivex.scheduler.scheduler import UTC_ZERO
from reactivex.testing import TestScheduler

from engine.api import I, harness, cover


class SelfDeadlock(Exception):
    """the thread tried to re-acquire a non-reentrant lock it already holds: with a real threading.Lock this blocks forever"""


class DetectingLock:
    """drop-in for threading.Lock that turns a self-deadlock (documented behaviour: block forever) into an exception"""

    def __init__(self):
        self._l = threading.Lock()
        self._owner = None

    def acquire(self, blocking=True, timeout=-1):
        if self._owner == threading.get_ident():
            raise SelfDeadlock()
        ok = self._l.acquire(blocking, timeout)
        if ok:
            self._owner = threading.get_ident()
        return ok

    def release(self):
        self._owner = None
        self._l.release()

    def __enter__(self):
        self.acquire()
        return self

    def __exit__(self, *a):
        self.release()


def make(kind):
    if kind == "hist":
        s = HistoricalScheduler()
    elif kind == "vts":
        s = VirtualTimeScheduler()
    else:
        s = TestScheduler()
    s._lock = DetectingLock()  # harness-side instrumentation of this one instance, no repository edit
    return s


def concretize(x, lo, hi):
    for c in range(lo, hi + 1):
        if x == c:
            return c
    return hi


def _inst(tier):
    bases = (0, 94, 194) if tier == "quick" else (0, 44, 94, 144, 194, 294)
    return [{"kind": k, "base": b, "via": v} for k in ("hist", "vts", "test") for b in bases for v in ("start", "advance_to")]


@harness(instances=_inst, dn=I(0, 12), r=I(0, 2), timeout=(150, 1500), stock=False)
def h_same_instant(a, inst):
    """n = base + dn actions share one due time; each reschedules itself r more times at the current time; the run must return
    having invoked every one of them (step budget = the exact count), and a drained scheduler can be started again"""
    n = inst["base"] + concretize(a.dn, 0, 12)
    r = concretize(a.r, 0, 2)
    sch = make(inst["kind"])
    hist = inst["kind"] == "hist"
    at = (UTC_ZERO + timedelta(seconds=5)) if hist else 5.0
    count = [0]
    budget = n * (r + 1)

    def mk(left):
        def action(scheduler, state):
            count[0] += 1
            if count[0] > budget + 5:
                raise AssertionError("step budget exceeded: livelock")
            if left:
                scheduler.schedule(mk(left - 1))
        return action

    for _ in range(n):
        sch.schedule_absolute(at, mk(r))
    try:
        if inst["via"] == "start":
            VirtualTimeScheduler.start(sch)
        else:
            sch.advance_to((UTC_ZERO + timedelta(seconds=50)) if hist else 50.0)
    except SelfDeadlock:
        return False
    if count[0] != budget:
        return False
    # restart after the queue drained
    ran = []
    sch.schedule_relative(timedelta(seconds=1) if hist else 1.0, lambda s, st: ran.append(1))
    try:
        VirtualTimeScheduler.start(sch)
    except SelfDeadlock:
        return False
    cover("ran")
    return ran == [1]


ENCODED = ["reactivex/scheduler/virtualtimescheduler.py", "reactivex/scheduler/historicalscheduler.py", "reactivex/testing/testscheduler.py"]
BOUNDS = {"quick": "n in [0,12] u [94,106] u [194,206] actions at one due time (the spinning guard triggers after 100), each "
                   "rescheduling itself r in [0,2] more times at the current time, numeric clocks (VirtualTimeScheduler, TestScheduler) "
                   "and datetime clock (HistoricalScheduler), through start() and through advance_to(); restart after draining",
          "thorough": "additionally n around 50, 150 and 300"}
ASSUMES = ["the scheduler instance's non-reentrant lock is replaced by a shim that raises when its owner re-acquires it (the documented "
           "behaviour of threading.Lock is to block forever: a hang); counterexamples are replayed in a subprocess under a wall-clock "
           "watchdog where 'still running' is the reproduced violation",
           "n and r are realised by branching (they drive concrete loops)"]
MANIFEST = {
    "text": "Bounded symbolic model checking of VirtualTimeScheduler.start/advance_to on numeric and datetime clocks: the number of "
            "same-instant actions (around the spinning-guard threshold) and the self-rescheduling depth are solver variables; the "
            "run must return after exactly n*(r+1) invocations and be restartable; hangs are detected as self-deadlocks of the "
            "scheduler's own lock.",
    "note": "n up to 206 (quick) / 306; r <= 2.",
}
