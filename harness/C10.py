"""C10 — sequential composition runs one source at a time, in order."""
import reactivex
from reactivex import operators as ops

from engine.api import I, harness, cover
from engine.lib import Injected, make_scheduler, on_completed, on_error, on_next, rec_tuples, same_events

ERRS = [Injected("e0"), Injected("e1"), Injected("e2"), Injected("e3")]


def mk_sources(sch, a, K, n):
    """K cold sources; source j: n elements at cumulative gaps (first at 1 + g), then completed (term 1) / error (term 2)
    tg + 1 ticks after the last element.  Returns [(observable, rel_events, term, rel_term_time)]"""
    out = []
    gi = 0
    for j in range(K):
        t = 0
        ev = []
        for i in range(n):
            t = t + 1 + a.g[gi]
            gi += 1
            ev.append((t, 100 * j + i))
        tt = t + 1 + a.tg[j]
        msgs = [on_next(t_, v) for t_, v in ev]
        msgs.append(on_completed(tt) if a.term[j] == 1 else on_error(tt, ERRS[j]))
        out.append((sch.create_cold_observable(msgs), ev, a.term[j], tt, ERRS[j]))
    return out


def ref_chain(srcs, cont, start=200):
    """cont: set of terminal kinds (1 completed / 2 error) on which the operator continues with the next source.
    Returns (expected events, expected subscription intervals per list position)"""
    out, subs = [], []
    t0 = start
    last = None
    for (obs, ev, term, tt, err) in srcs:
        for t, v in ev:
            out.append((t0 + t, "N", v))
        subs.append((t0, t0 + tt))
        last = (term, t0 + tt, err)
        t0 = t0 + tt
        if term not in cont:
            break
    return out, subs, last


CHAINS = {
    # name: (build(observables), continue-on, final(last_term, all_consumed) -> terminal kind)
    "concat": (lambda xs: reactivex.concat(*xs), {1}),
    "concat_with_iterable": (lambda xs: reactivex.concat_with_iterable(list(xs)), {1}),
    "op_concat": (lambda xs: xs[0].pipe(ops.concat(*xs[1:])), {1}),
    "catch": (lambda xs: reactivex.catch(*xs), {2}),
    "catch_with_iterable": (lambda xs: reactivex.catch_with_iterable(list(xs)), {2}),
    "op_catch": (lambda xs: xs[0].pipe(ops.catch(xs[1])) if len(xs) > 1 else xs[0].pipe(ops.catch(reactivex.never())), {2}),
    "op_catch_fn": (lambda xs: xs[0].pipe(ops.catch(lambda e, s: xs[1])) if len(xs) > 1 else xs[0].pipe(ops.catch(lambda e, s: reactivex.never())), {2}),
    "on_error_resume_next": (lambda xs: reactivex.on_error_resume_next(*xs), {1, 2}),
    "op_on_error_resume_next": (lambda xs: xs[0].pipe(ops.on_error_resume_next(xs[1])) if len(xs) > 1 else xs[0].pipe(ops.on_error_resume_next(reactivex.empty())), {1, 2}),
}


def _cinst(tier):
    out = []
    for name in CHAINS:
        for K in (1, 2, 3):
            if name.startswith("op_") and name != "op_concat" and K != 2:
                continue
            out.append({"op": name, "K": K, "n": 1})
        out.append({"op": name, "K": 2, "n": 2})
        if tier != "quick" and (not name.startswith("op_") or name == "op_concat"):
            out.append({"op": name, "K": 3, "n": 2})
            out.append({"op": name, "K": 4, "n": 1})
    return out


@harness(instances=_cinst, g=I(0, 2, n=lambda i: i["K"] * i["n"]), tg=I(0, 2, n=lambda i: i["K"]), term=I(1, 2, n=lambda i: i["K"]),
         timeout=(90, 900))
def h_chain(a, inst):
    sch = make_scheduler()
    K = inst["K"]
    srcs = mk_sources(sch, a, K, inst["n"])
    build, cont = CHAINS[inst["op"]]
    obs = build([s[0] for s in srcs])
    res = sch.start(lambda: obs, disposed=300)
    got = rec_tuples(res.messages)
    exp, subs, last = ref_chain(srcs, cont)
    consumed = len(subs)
    term, tend, err = last
    name = inst["op"]
    if "on_error_resume_next" in name:
        if consumed == K:
            exp.append((tend, "C", None))
    elif "catch" in name:
        if term == 1:
            exp.append((tend, "C", None))
        elif consumed == K:
            if name in ("op_catch", "op_catch_fn") and K == 1:
                pass  # fallback is never(): nothing more
            else:
                exp.append((tend, "E", err))
    else:  # concat
        if term == 2:
            exp.append((tend, "E", err))
        elif consumed == K:
            exp.append((tend, "C", None))
    if not same_events(got, exp):
        return False
    # subscription logs: one interval per consumed source, back to back, none for the others
    for j, s in enumerate(srcs):
        log = [(x.subscribe, x.unsubscribe) for x in s[0].subscriptions]
        if j < consumed:
            if log != [subs[j]]:
                return False
        elif log:
            return False
    cover("ran")
    return True


# ------------------------------------------------------------------ repeat / retry / start_with / while_do / do_while
def _rinst(tier):
    return [{"op": o, "n": n} for o in ("repeat", "retry", "repeat_take", "retry_take", "while_do", "do_while", "start_with")
            for n in ((1, 2) if tier == "quick" else (1, 2, 3))]


@harness(instances=_rinst, g=I(0, 2, n=lambda i: i["n"]), tg=I(0, 2, n=1), term=I(1, 2, n=1), c=I(0, 3), timeout=(90, 900))
def h_repeat(a, inst):
    sch = make_scheduler()
    (src, ev, term, tt, err), = mk_sources(sch, a, 1, inst["n"])
    op = inst["op"]
    c = a.c
    cap = 4  # cut for the unbounded forms
    if op == "repeat":
        obs, runs, cont = src.pipe(ops.repeat(c)), c, {1}
    elif op == "retry":
        obs, runs, cont = src.pipe(ops.retry(c)), c, {2}
    elif op == "repeat_take":
        obs, runs, cont = src.pipe(ops.repeat(), ops.take(c)), None, {1}
    elif op == "retry_take":
        obs, runs, cont = src.pipe(ops.retry(), ops.take(c)), None, {2}
    elif op == "while_do":
        k = [0]

        def cond(_):
            k[0] += 1
            return k[0] <= c
        obs, runs, cont = src.pipe(ops.while_do(cond)), c, {1}
    elif op == "do_while":
        k = [0]

        def cond(_):
            k[0] += 1
            return k[0] <= c
        obs, runs, cont = src.pipe(ops.do_while(cond)), c + 1, {1}
    else:
        obs = src.pipe(ops.start_with(7, 8))
        res = sch.start(lambda: obs, disposed=300)
        exp = [(200, "N", 7), (200, "N", 8)] + [(200 + t, "N", v) for t, v in ev]
        exp.append((200 + tt, "C", None) if term == 1 else (200 + tt, "E", err))
        return same_events(rec_tuples(res.messages), exp) and [(x.subscribe, x.unsubscribe) for x in src.subscriptions] == [(200, 200 + tt)]
    res = sch.start(lambda: obs, disposed=300)
    got = rec_tuples(res.messages)
    subs = [(x.subscribe, x.unsubscribe) for x in src.subscriptions]
    if runs is not None:
        # bounded count: subscribe while the budget lasts and the run ended in the continuing way
        exp, esubs, t0, r = [], [], 200, 0
        ended = None
        while r < runs:
            for t, v in ev:
                exp.append((t0 + t, "N", v))
            esubs.append((t0, t0 + tt))
            t0 += tt
            r += 1
            if term not in cont:
                ended = term
                break
        if ended is not None:
            exp.append((t0, "C", None) if ended == 1 else (t0, "E", err))
        elif runs == 0:
            exp.append((200, "C", None))
        else:
            # budget exhausted after continuing runs: repeat/while complete, retry forwards the last error
            exp.append((t0, "C", None) if 1 in cont else (t0, "E", err))
        cover("bounded")
        return same_events(got, exp) and subs == esubs
    # unbounded forms cut by take(c)
    need = c
    if need == 0:
        return [k for _, k, _ in got] == ["C"] and subs in ([], [(200, 200)])
    exp, esubs, t0, taken = [], [], 200, 0
    while True:
        done = False
        for t, v in ev:
            exp.append((t0 + t, "N", v))
            taken += 1
            if taken == need:
                exp.append((t0 + t, "C", None))
                esubs.append((t0, t0 + t))
                done = True
                break
        if done:
            break
        esubs.append((t0, t0 + tt))
        t0 += tt
        if term not in cont:
            exp.append((t0, "C", None) if term == 1 else (t0, "E", err))
            break
    return same_events(got, exp) and subs == esubs


# ------------------------------------------------------------------ synchronous first source, re-entrant chaining
from reactivex.scheduler import ImmediateScheduler  # noqa: E402
from reactivex.subject import Subject  # noqa: E402

SYNC_SHAPES = {
    "concat": (lambda first, second: reactivex.concat(first, second), 1),
    "op_concat": (lambda first, second: first.pipe(ops.concat(second)), 1),
    "concat_with_iterable": (lambda first, second: reactivex.concat_with_iterable([first, second]), 1),
    "start_with": (lambda first, second: second.pipe(ops.start_with(1, 2)), 0),
    "catch": (lambda first, second: first.pipe(ops.catch(second)), 2),
    "catch_with_iterable": (lambda first, second: reactivex.catch_with_iterable([first, second]), 2),
    "on_error_resume_next": (lambda first, second: reactivex.on_error_resume_next(first, second), 3),
    "for_in": (lambda first, second: reactivex.for_in([0, 1], lambda i: (first, second)[i]), 1),
}


@harness(instances=lambda tier: [{"shape": s} for s in SYNC_SHAPES], n2=I(0, 2), term1=I(1, 2), term2=I(0, 2), imm=I(0, 1), timeout=(60, 600), stock=False)
def h_sync_first(a, inst):
    """the first source emits 1, 2 and terminates synchronously inside its subscribe; the second is a Subject that is live
    afterwards.  Subscribed on the default (trampoline) scheduler or with an ImmediateScheduler (re-entrant chaining: the next
    source is subscribed from inside the first one's termination).  The result is the concatenation, and the second source's
    later elements and its termination are not lost"""
    build, cont = SYNC_SHAPES[inst["shape"]]
    e1 = Injected("first")

    def sub1(observer, scheduler=None):
        observer.on_next(1)
        observer.on_next(2)
        if a.term1 == 1:
            observer.on_completed()
        else:
            observer.on_error(e1)
        return reactivex.disposable.Disposable()

    first = reactivex.Observable(sub1) if cont else None
    second = Subject()
    obs = build(first, second)
    log = []
    kw = {"scheduler": ImmediateScheduler()} if a.imm else {}
    obs.subscribe(lambda v: log.append(("N", v)), lambda e: log.append(("E", e)), lambda: log.append(("C",)), **kw)
    for i in range(a.n2):
        second.on_next(10 + i)
    e2 = Injected("second")
    if a.term2 == 1:
        second.on_completed()
    elif a.term2 == 2:
        second.on_error(e2)
    exp = [("N", 1), ("N", 2)]
    goes_on = cont == 0 or cont == 3 or cont == a.term1
    if goes_on:
        exp += [("N", 10 + i) for i in range(a.n2)]
        if a.term2 == 1:
            exp.append(("C",))
        elif a.term2 == 2:
            exp.append(("C",) if cont == 3 else ("E", e2))
    else:
        exp.append(("C",) if a.term1 == 1 else ("E", e1))
    cover("ran")
    return log == exp


ENCODED = ["reactivex/observable/concat.py", "reactivex/observable/catch.py", "reactivex/observable/onerrorresumenext.py",
           "reactivex/operators/_catch.py", "reactivex/operators/_repeat.py", "reactivex/operators/_retry.py",
           "reactivex/operators/_whiledo.py", "reactivex/operators/_dowhile.py", "reactivex/operators/_startswith.py",
           "reactivex/operators/_concat.py", "reactivex/operators/_onerrorresumenext.py"]
BOUNDS = {"quick": "lists of 1..3 cold sources with 1 element each (and 2 sources with 2 elements), gaps and terminal gaps in [0,2], "
                   "terminal kind completed/error per source; repeat/retry/while_do/do_while counts in [0,3] over a source with "
                   "1..2 elements, unbounded repeat()/retry() cut by take(c), c in [0,3]; 8 chaining shapes whose first source terminates "
                   "synchronously inside subscribe and whose second source is a Subject emitting 0..2 elements afterwards, "
                   "subscribed on the default scheduler or with ImmediateScheduler (re-entrant chaining)",
          "thorough": "additionally lists of 4 sources with 1 element and 3 sources with 2 elements each, repeat/retry/while_do/do_while/start_with over a source with 3 elements"}
ASSUMES = ["Tick/Span time stub", "for_in is exercised in the synchronous-first-source harness and in C04",
           "the next source is subscribed in the same tick in which the previous one terminated"]
MANIFEST = {
    "text": "Bounded symbolic model checking: source timelines, terminal kinds and counts are solver variables; the output must be "
            "the concatenation of the consumed sources and the subscription logs must show back-to-back, non-overlapping intervals "
            "(next source subscribed at the instant the previous one terminated in the continuing way; exactly n / at most n "
            "subscriptions for repeat(n) / retry(n)).",
    "note": "<=3 sources, <=2 elements each, counts <=3.",
}
