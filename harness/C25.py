"""C25 — a disposable's action runs at most once.  Sequential histories (XH) + interleavings (GT)."""
import reactivex.disposable.booleandisposable as m_bool
import reactivex.disposable.disposable as m_disp
import reactivex.disposable.scheduleddisposable as m_sched
import reactivex.disposable.singleassignmentdisposable as m_sad
from reactivex.disposable import BooleanDisposable, Disposable, ScheduledDisposable

from engine import gate
from engine.api import I, harness, cover
from engine.ticktime import TickVTS


def concretize(x, n):
    for c in range(n):
        if x == c:
            return c
    return n - 1


class Counting:
    def __init__(self):
        self.count = 0

    def dispose(self):
        self.count += 1


# ------------------------------------------------------------------ one thread: call histories
@harness(instances=lambda tier: [{"kind": k, "L": 4 if tier == "quick" else 6} for k in ("disposable", "boolean", "scheduled")],
         op=I(0, 2, n=lambda i: i["L"]), timeout=(60, 600), stock=False)
def h_history(a, inst):
    """ops: 0 dispose()  1 read is_disposed  2 (scheduled only) run the scheduler"""
    kind = inst["kind"]
    count = [0]
    res = Counting()
    sch = TickVTS()
    if kind == "disposable":
        d = Disposable(lambda: count.__setitem__(0, count[0] + 1))
    elif kind == "boolean":
        d = BooleanDisposable()
    else:
        d = ScheduledDisposable(sch, res)
    disposed_calls = 0
    for x in a.op:
        o = concretize(x, 3)
        if o == 0:
            d.dispose()
            disposed_calls += 1
            if kind != "scheduled" and not d.is_disposed:
                return False
        elif o == 1:
            if kind != "scheduled" and d.is_disposed != (disposed_calls > 0):
                return False
        elif kind == "scheduled":
            before = res.count
            sch.start()
            if res.count != (1 if disposed_calls else 0) or res.count < before:
                return False
            if disposed_calls and not d.is_disposed:
                return False
    if kind == "disposable":
        return count[0] == (1 if disposed_calls else 0)
    if kind == "scheduled":
        sch.start()
        return res.count == (1 if disposed_calls else 0)
    cover("ran")
    return True


# ------------------------------------------------------------------ interleavings: gate-serialised real threads
def _ginst(tier):
    out = []
    for kind in ("disposable", "scheduled"):
        for threads in (2, 3):
            if tier == "quick":
                P = 2 if (kind == "disposable" and threads == 2) else 1
            else:
                P = 2
            # the first preemption position is split into chunks (the discrete split that spreads work over processes)
            chunks = [(0, 60)] if P == 1 else [(0, 9), (10, 19), (20, 29), (30, 60)]
            for lo, hi in chunks:
                out.append({"kind": kind, "threads": threads, "P": P, "lo": lo, "hi": hi})
    return out


@harness(instances=_ginst, p0=I(lambda i: i["lo"], lambda i: i["hi"]), pos=I(0, 60, n=lambda i: i["P"] - 1), tgt=I(0, 2, n=lambda i: i["P"]),
         timeout=(240, 1800), stock=False)
def h_interleave(a, inst):
    a.pos = [a.p0] + list(a.pos)
    """T threads call dispose() concurrently; the schedule (preemption positions and targets) is symbolic.  Monitor: the action
    ran exactly once after all returned, and every thread observed is_disposed after its own dispose() returned"""
    T = inst["threads"]
    preempts = [(a.pos[i], a.tgt[i]) for i in range(inst["P"])]
    with gate.install(m_disp, m_sad, m_sched, m_bool):
        gate.watch(m_disp, m_sad, m_sched)
        g = gate.Gate()
        count = [0]
        seen = []
        res = Counting()
        sch = TickVTS()
        if inst["kind"] == "disposable":
            d = Disposable(lambda: count.__setitem__(0, count[0] + 1))
        else:
            d = ScheduledDisposable(sch, res)

        def worker():
            d.dispose()
            if inst["kind"] == "disposable":
                seen.append(d.is_disposed)

        for _ in range(T):
            g.spawn(worker)
        r = g.run(preempts)
        if r != "done" or g.errors:
            return False
        cover("ran")
        if inst["kind"] == "disposable":
            return count[0] == 1 and all(seen) and len(seen) == T
        sch.start()
        return res.count == 1 and d.is_disposed


ENCODED = ["reactivex/disposable/disposable.py", "reactivex/disposable/booleandisposable.py", "reactivex/disposable/scheduleddisposable.py",
           "reactivex/disposable/singleassignmentdisposable.py"]
BOUNDS = {"quick": "call histories of length 4 over {dispose, read is_disposed, run the scheduler} on Disposable, BooleanDisposable and "
                   "ScheduledDisposable; interleavings: 2 threads with up to 2 preemptions and 3 threads with 1 preemption at "
                   "instruction-level yield points (shared-access opcodes and lock operations)",
          "thorough": "histories of length 6; 2 threads P<=2, 3 threads P<=1 incl. ScheduledDisposable"}
ASSUMES = ["gate-aware RLock/Lock shims replace the module-level lock names of the disposable modules (contract: Python threading docs)",
           "between preemptions the running thread keeps running (non-preemptive otherwise); more than P preemptions are outside",
           "ScheduledDisposable is driven on a virtual-time scheduler (drained after the threads returned)"]
MANIFEST = {
    "engine": "XH+GT",
    "text": "Bounded symbolic model checking: (1) every call history of bounded length on one thread; (2) gate-serialised real threads "
            "running the real dispose() code with the preemption schedule (positions at GIL-atomic granularity and targets) as solver "
            "variables: every schedule with at most P preemptions is decided.",
    "note": "2 threads P<=2, 3 threads P<=1.",
}
