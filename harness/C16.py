"""C16 — rate-limiting operators follow their timing rules."""
import reactivex
from reactivex import operators as ops

from engine.api import I, harness, cover
from engine.lib import SRC_ERR, make_scheduler, messages, on_completed, on_next, rec_tuples, same_events, times_from_gaps


def _setup(a, n, gmax_base=210):
    xs = [10 + i for i in range(n)]  # distinct concrete values: the rules are about time, not values
    ts = times_from_gaps(a.g)
    tt = (ts[-1] if ts else 210) + a.tg
    return xs, ts, tt


def _term(out, term, tt):
    if term == 1:
        out.append((tt, "C", None))
    elif term == 2:
        out.append((tt, "E", SRC_ERR))
    return out


# ------------------------------------------------------------------ debounce / throttle_with_timeout
def ref_debounce(xs, ts, term, tt, d):
    """x_i is emitted at t_i + d iff no newer element arrives in (t_i, t_i + d] (an arrival at exactly t_i + d was scheduled
    before the timer and supersedes it: FIFO among equal due times, C28) and the source has not terminated by then;
    completion flushes the pending element, an error drops it"""
    out = []
    n = len(xs)
    for i in range(n):
        due = ts[i] + d
        if i + 1 < n and ts[i + 1] <= due:
            continue  # superseded
        if term != 0 and tt <= due:
            # still pending when the source terminates (termination at the very due instant comes first: FIFO)
            if term == 1:
                out.append((tt, "N", xs[i]))
            continue
        out.append((due, "N", xs[i]))
    return _term(out, term, tt)


def _dinst(tier):
    nm = 3 if tier == "quick" else 4
    return [{"op": o, "N": n} for o in ("debounce", "throttle_with_timeout") for n in range(0, nm + 1)]


@harness(instances=_dinst, g=I(0, 4, n=lambda i: i["N"]), tg=I(0, 4), term=I(0, 2), d=I(1, 4), timeout=(90, 900))
def h_debounce(a, inst):
    n = inst["N"]
    xs, ts, tt = _setup(a, n)
    sch = make_scheduler()
    src = sch.create_hot_observable(messages(xs, a.g, a.term, a.tg))
    op = ops.debounce(a.d) if inst["op"] == "debounce" else ops.throttle_with_timeout(a.d)
    res = sch.start(lambda: src.pipe(op), disposed=260)
    return same_events(rec_tuples(res.messages), ref_debounce(xs, ts, a.term, tt, a.d))


# ------------------------------------------------------------------ throttle_first
def ref_throttle_first(xs, ts, term, tt, d):
    out, last = [], None
    for x, t in zip(xs, ts):
        if last is None or t - last >= d:
            out.append((t, "N", x))
            last = t
    return _term(out, term, tt)


@harness(instances=lambda tier: [{"N": n} for n in range(0, (4 if tier == "quick" else 5) + 1)],
         g=I(0, 4, n=lambda i: i["N"]), tg=I(0, 2), term=I(0, 2), d=I(1, 4), timeout=(90, 900))
def h_throttle_first(a, inst):
    n = inst["N"]
    xs, ts, tt = _setup(a, n)
    sch = make_scheduler()
    src = sch.create_hot_observable(messages(xs, a.g, a.term, a.tg))
    res = sch.start(lambda: src.pipe(ops.throttle_first(a.d)), disposed=260)
    return same_events(rec_tuples(res.messages), ref_throttle_first(xs, ts, a.term, tt, a.d))


# ------------------------------------------------------------------ throttle_with_mapper
def _tminst(tier):
    return [{"N": n} for n in range(0, (3 if tier == "quick" else 4) + 1)]


@harness(instances=_tminst, g=I(0, 3, n=lambda i: i["N"]), tg=I(0, 3), term=I(0, 2), d=I(0, 3), dk=I(0, 2), timeout=(90, 900))
def h_throttle_with_mapper(a, inst):
    """each element's throttle observable is a cold source that emits (dk=0), completes empty (dk=1) or emits then completes
    (dk=2) d ticks after the element; the pending element is emitted when its throttle fires first"""
    n = inst["N"]
    xs, ts, tt = _setup(a, n)
    sch = make_scheduler()
    src = sch.create_hot_observable(messages(xs, a.g, a.term, a.tg))
    if a.dk == 0:
        inner = sch.create_cold_observable(on_next(a.d, 0))
    elif a.dk == 1:
        inner = sch.create_cold_observable(on_completed(a.d))
    else:
        inner = sch.create_cold_observable(on_next(a.d, 0), on_completed(a.d + 1))
    res = sch.start(lambda: src.pipe(ops.throttle_with_mapper(lambda x: inner)), disposed=260)
    got = rec_tuples(res.messages)
    if a.dk == 1:
        # a throttle observable that completes without emitting: the statement only speaks about "fires"; both readings
        # (completion counts as firing / does not) are accepted, the pending element must in any case not be duplicated
        vals = [p for _, k, p in got if k == "N"]
        return len(vals) == len(set(vals))
    # with d == 0 the throttle fires in the instant of the element itself, after it (scheduled later)
    exp = []
    for i in range(n):
        due = ts[i] + a.d
        if i + 1 < n and (ts[i + 1] < due or (ts[i + 1] == due and a.d > 0)):
            continue
        if i + 1 < n and ts[i + 1] == due and a.d == 0:
            # next element in the same instant as a zero-delay throttle: the throttle was scheduled after the element's
            # arrival but the next element's message was scheduled at creation: the arrival comes first
            continue
        if a.term != 0 and (tt < due or (tt == due and a.d > 0) or (tt == due and a.d == 0)):
            if a.term == 1:
                exp.append((tt, "N", xs[i]))
            continue
        exp.append((due, "N", xs[i]))
    _term(exp, a.term, tt)
    return same_events(got, exp)


# ------------------------------------------------------------------ sample
def ref_sample(events):
    """events: the delivered source-side notifications in delivery order: ('x', t, v) element, ('tick', t), ('xc', t) source
    completed, ('xe', t) source error, ('sc', t) sampler completed.  Returns expected element emissions [(t, v)] and, when
    determined, the terminal."""
    out, pending, has = [], None, False
    at_end = False
    for e in events:
        if e[0] == "x":
            pending, has = e[2], True
        elif e[0] in ("tick", "sc"):
            if has:
                out.append((e[1], "N", pending))
                has = False
            if at_end:
                out.append((e[1], "C", None))
                return out
        elif e[0] == "xc":
            at_end = True
        elif e[0] == "xe":
            out.append((e[1], "E", SRC_ERR))
            return out
    return out


def _sinst(tier):
    nm = 2 if tier == "quick" else 3
    return [{"N": n, "M": m, "cold": c} for n in range(0, nm + 1) for m in range(0, nm + 1) for c in (0, 1)]


@harness(instances=_sinst, g=I(0, 3, n=lambda i: i["N"]), tg=I(0, 3), term=I(0, 2), h=I(0, 3, n=lambda i: i["M"]),
         th=I(0, 3), term2=I(0, 1), timeout=(120, 900))
def h_sample_observable(a, inst):
    """sampler given as an observable; ties inside one instant are resolved by the actual delivery order of the two test
    sources (recorded with do_action taps on the sources themselves), so no tie-break is imposed on the operator"""
    n, m = inst["N"], inst["M"]
    xs = [10 + i for i in range(n)]
    sch = make_scheduler()
    base = 210 if not inst["cold"] else 10
    mk = sch.create_cold_observable if inst["cold"] else sch.create_hot_observable
    src0 = mk(messages(xs, a.g, a.term, a.tg, base=base))
    smp0 = mk(messages([0] * m, a.h, a.term2, a.th, base=base))
    log = []
    src = src0.pipe(ops.do_action(lambda v: log.append(("x", sch.clock, v)), lambda e: log.append(("xe", sch.clock)),
                                  lambda: log.append(("xc", sch.clock))))
    smp = smp0.pipe(ops.do_action(lambda v: log.append(("tick", sch.clock)), None, lambda: log.append(("sc", sch.clock))))
    res = sch.start(lambda: src.pipe(ops.sample(smp)), disposed=260)
    got = rec_tuples(res.messages)
    exp = ref_sample(log)
    return same_events(got, exp)


@harness(instances=lambda tier: [{"N": n, "d": d} for n in range(0, (3 if tier == "quick" else 4) + 1) for d in (1, 2, 3)],
         g=I(0, 3, n=lambda i: i["N"]), tg=I(0, 3), term=I(0, 2), timeout=(120, 900))
def h_sample_period(a, inst):
    """sample(period): ticks at 200 + k*period; elements are from a hot source (their messages were scheduled before any tick)"""
    n = inst["N"]
    xs, ts, tt = _setup(a, n)
    sch = make_scheduler()
    src = sch.create_hot_observable(messages(xs, a.g, a.term, a.tg))
    d = inst["d"]  # the period drives a concrete periodic loop: one instance per period
    res = sch.start(lambda: src.pipe(ops.sample(d)), disposed=226)
    got = rec_tuples(res.messages)
    ev = [("x", t, x) for x, t in zip(xs, ts)]
    if a.term == 1:
        ev.append(("xc", tt))
    elif a.term == 2:
        ev.append(("xe", tt))
    ticks = [("tick", 200 + k * d) for k in range(1, 40) if 200 + k * d < 226]
    # merge: at equal instants the hot source's notification comes first (scheduled at creation)
    merged = sorted(ev + ticks, key=lambda e: (e[1], 0 if e[0] != "tick" else 1))
    return same_events(got, ref_sample(merged))


# ------------------------------------------------------------------ feedback: the consumer feeds the source while a sample is delivered
from reactivex.subject import Subject  # noqa: E402


@harness(instances=lambda tier: [{"k": "sample"}], n=I(1, 3), extra=I(0, 1), timeout=(60, 300), stock=False)
def h_sample_feedback(a, inst):
    """source and sampler are Subjects; the consumer answers every sample v by pushing v + 1 into the source while the sample is
    still being delivered; each later sampler tick must deliver that newer value (nothing pushed during a delivery is lost)"""
    source, sampler = Subject(), Subject()
    got = []

    def consume(v):
        got.append(v)
        source.on_next(v + 1)

    source.pipe(ops.sample(sampler)).subscribe(consume)
    source.on_next(1)
    for _ in range(a.n):
        sampler.on_next(None)
    if a.extra:
        sampler.on_next(None)
    cover("ran")
    return got == list(range(1, a.n + a.extra + 1))


ENCODED = ["reactivex/operators/_debounce.py", "reactivex/operators/_throttlefirst.py", "reactivex/operators/_sample.py",
           "reactivex/observable/timer.py", "reactivex/observable/interval.py", "reactivex/scheduler/periodicscheduler.py"]
BOUNDS = {"quick": "N<=3 elements (throttle_first N<=4; sample with observable sampler N,M<=2, hot and cold), gaps in [0,4] ticks, due "
                   "time / window / period d in [1,4] (so gap == d is inside the range), terminal none/completed/error with a "
                   "pending element, throttle observables that emit / complete empty / emit then complete after d in [0,3]",
          "thorough": "N<=4 (5 for throttle_first, 3 for sample-observable)"}
ASSUMES = ["Tick/Span time stub", "an arrival in the very instant a debounce timer is due supersedes it (it was scheduled first: FIFO, C28)",
           "sample with an observable sampler: same-instant ties follow the actual delivery order of the two sources (no tie-break "
           "is imposed on the operator); sample's completion is emitted at the first tick after the source completed (as implemented; "
           "the statement does not fix it)",
           "throttle_with_mapper with a throttle observable that completes without emitting: only 'no duplicate' is required"]
MANIFEST = {
    "text": "Bounded symbolic model checking: element times (gaps incl. 0 and gap == due time), terminal kind/time, due time / "
            "period and throttle behaviour are solver variables; the recorded (time, notification) list must equal the timing "
            "rule evaluated by a reference model.",
    "note": "N<=3/4; gaps<=4; d<=4.",
}
