"""C44 — an operator function can be applied to many sources independently."""
import reactivex
from reactivex import operators as ops
from reactivex.subject import Subject

from engine.api import I, harness, cover
from engine.lib import make_scheduler, rec_tuples, same_events, on_next, on_completed, on_error, Injected
from harness import pipe
from harness.catalog import Ctx, E

ERR = Injected("src")


def _sources(sch, a, kind=None):
    from harness.catalog import element
    e = lambda v: element(kind, v)  # noqa: E731
    # concrete timelines: the symbolic budget of this property goes to the subscription interleaving and the parameters
    m1 = [on_next(1, e(1)), on_next(3, e(2))]
    m1.append(on_completed(5) if a.term != 2 else on_error(5, ERR))
    m2 = [on_next(2, e(0)), on_completed(4)]
    other = [on_next(1, 50), on_completed(6)]
    i1 = [on_next(1, 70), on_completed(2)]
    i2 = [on_next(1, 80), on_next(2, 81), on_completed(3)]
    mk = sch.create_cold_observable
    return mk(m1), mk(m2), mk(other), mk(i1), mk(i2)


def _run(a, inst, shared):
    """apply the operator to two independent cold sources; subscriptions at 200+s1 and 200+s2 (solver-chosen order/overlap);
    shared=True: ONE operator object for both, shared=False: a fresh operator object per source"""
    sch = make_scheduler()
    s1, s2, other, i1, i2 = _sources(sch, a, E[inst["op"]].get("elem"))
    build = E[inst["op"]]["build"]

    def mkctx():
        return Ctx(sch, p=a.p, m=a.m, others=[other], inners=[i1, i2])

    if shared:
        op = build(mkctx())
        o1, o2 = s1.pipe(op), s2.pipe(op)
    else:
        o1, o2 = s1.pipe(build(mkctx())), s2.pipe(build(mkctx()))
    r1, r2, r3 = sch.create_observer(), sch.create_observer(), sch.create_observer()
    h1 = [None]
    sch.schedule_absolute(200 + a.s1, lambda s, st: h1.__setitem__(0, o1.subscribe(r1, scheduler=s)))
    if inst.get("early") and a.d1 < 3:
        # the first application's first subscriber leaves early: must not disturb the second application
        sch.schedule_absolute(201 + a.s1 + a.d1, lambda s, st: h1[0].dispose())
    sch.schedule_absolute(200 + a.s2, lambda s, st: o2.subscribe(r2, scheduler=s))
    # a second subscriber of the first application, later: shared multicast state shows up here
    sch.schedule_absolute(200 + a.s1 + a.s3, lambda s, st: o1.subscribe(r3, scheduler=s))
    sch.advance_to(240)
    logs = [rec_tuples(r.messages) for r in (r1, r2, r3)]
    subs = [[(x.subscribe, x.unsubscribe) for x in s.subscriptions] for s in (s1, s2)]
    return logs, subs


def _inst(tier):
    out = pipe.instances(tier, 1, 1, nmin=1, tagsel=lambda t: "nocold" not in t)
    skip = {"timestamp", "time_interval", "average"}
    if tier == "quick":  # periodic timers x two applications x two variants: thorough tier only
        skip |= {"buffer_with_time", "window_with_time", "buffer_with_time_or_count", "window_with_time_or_count"}
    # connectable / multicast operators additionally with a first subscriber that leaves early
    return [{"op": i["op"], "early": 1 if "multi" in E[i["op"]]["tags"] else 0} for i in out if i["op"] not in skip]


@harness(instances=_inst, timeout=(150, 900), term=I(1, 2), p=I(0, 2), m=I(1, 2), s1=I(0, 2), s2=I(0, 2), s3=I(0, 3), d1=I(0, lambda i: 3 if i.get("early") else 0))
def h_reuse(a, inst):
    la, sa = _run(a, inst, True)
    lb, sb = _run(a, inst, False)
    cover("ran")
    for x, y in zip(la, lb):
        if not same_events(x, y):
            return False
    return sa == sb


def _run_two_schedulers(a, inst, shared):
    """application 1 lives on scheduler A, application 2 on a different scheduler B (each subscribed with its own scheduler and
    run one after the other): an operator function must not remember the scheduler of an earlier application"""
    schs = [make_scheduler(), make_scheduler()]
    build = E[inst["op"]]["build"]
    srcs = [_sources(sc, a, E[inst["op"]].get("elem")) for sc in schs]

    def mkctx(k):
        return Ctx(None, p=a.p, m=a.m, others=[srcs[k][2]], inners=[srcs[k][3], srcs[k][4]])

    op = build(mkctx(0)) if shared else None
    logs = []
    for k in (0, 1):
        o = srcs[k][0 if k == 0 else 1].pipe(op if shared else build(mkctx(k)))
        r = schs[k].create_observer()
        schs[k].schedule_absolute(200 + (a.s1 if k == 0 else a.s2), (lambda o, r: lambda s, st: o.subscribe(r, scheduler=s))(o, r))
        schs[k].advance_to(240)
        logs.append(rec_tuples(r.messages))
    return logs


class _NoSch(Ctx):
    """a context without an explicit scheduler: entries that pass one to their operator are out of scope for this harness"""

    def __getattribute__(self, name):
        if name == "sch":
            raise LookupError("explicit scheduler")
        return object.__getattribute__(self, name)


def _tinst(tier):
    out = []
    for i in _inst(tier):
        tags = E[i["op"]]["tags"]
        if "time" not in tags or "other" in tags or "inner" in tags:
            continue
        try:
            c = _NoSch.__new__(_NoSch)
            Ctx.__init__(c, None)
            E[i["op"]]["build"](c)
        except LookupError:
            continue  # the operator is given an explicit scheduler: using it for every application is correct
        except Exception:  # noqa: BLE001
            pass
        out.append(i)
    return out


@harness(instances=_tinst, timeout=(90, 900), term=I(1, 2), p=I(0, 2), m=I(1, 2), s1=I(0, 2), s2=I(0, 2))
def h_reuse_two_schedulers(a, inst):
    la = _run_two_schedulers(a, inst, True)
    lb = _run_two_schedulers(a, inst, False)
    cover("ran")
    return all(same_events(x, y) for x, y in zip(la, lb))


ENCODED = ["reactivex/operators/connectable/_refcount.py", "reactivex/operators/_replay.py", "reactivex/operators/_publishvalue.py",
           "reactivex/operators/_publish.py", "reactivex/operators/_multicast.py", "reactivex/internal/curry.py",
           "reactivex/operators/__init__.py"]
BOUNDS = {"quick": "every catalogued operator factory: one operator object applied to two independent cold sources (2 and 1 elements, "
                   "concrete timelines, symbolic terminal kind and operator parameters), three subscriptions (two to the first application) at solver-chosen offsets "
                   "s1, s2 in [0,2], s3 in [0,3]; compared with fresh operator objects per source on identical sources",
          "thorough": "same with the thorough per-instance budget"}
ASSUMES = ["Tick/Span time stub", "callbacks are pure; inner/other sources are cold and shared by both variants",
           "timestamp/time_interval/average not compared (clock / float payloads)"]
MANIFEST = {
    "text": "Bounded symbolic differential check: records and source subscription logs of [op(s1), op(s2)] with ONE operator object "
            "must equal those obtained with a fresh operator object per source, for every catalogued operator factory and every "
            "timeline / subscription interleaving within the bound.",
    "note": "Depth-1; two sources, three subscriptions.",
}
