"""C36 — time values convert consistently between representations.

Engine FPK: the isinstance-dispatch of Scheduler.to_seconds / to_datetime / to_timedelta is translated from the AST of /repo's
scheduler.py into terms over CPython datetime primitives; each primitive has an SMT model over integer microseconds and reals with
the standard rounding-error model of IEEE-754 double arithmetic (|fl(a/b) - a/b| <= 2^-53 |a/b|, round-to-nearest-integer as
|r - d| <= 1/2), a sound over-approximation decided by z3 in linear arithmetic.  Counterexamples are replayed on the real functions.
"""
import ast
import inspect
import random
import time
from datetime import datetime, timedelta, timezone
from fractions import Fraction

LEVEL = "other"
US = 10 ** 6
EPS = Fraction(1, 2 ** 53)


# ------------------------------------------------------------------ translator: AST -> dispatch terms
class Cannot(Exception):
    pass


def translate(fn):
    """symbolically execute the body of a conversion classmethod for each runtime type of `value`.
    Returns {tag: term} with terms like ('id',), ('total_seconds', t), ('sub_epoch', t), ('add_epoch', t),
    ('fromtimestamp', t), ('td_from_seconds', t), ('attr', name, t)"""
    src = inspect.getsource(fn)
    src = "\n".join(l[4:] if l.startswith("    ") else l for l in src.splitlines())
    tree = ast.parse(src)
    fdef = tree.body[0]
    out = {}
    for tag in ("float", "datetime", "timedelta"):
        out[tag] = _exec(fdef.body, tag)
    return out


def _type_after(term, tag):
    k = term[0]
    if k == "id":
        return tag
    if k in ("total_seconds", "attr"):
        return "float"
    if k in ("sub_epoch", "td_from_seconds"):
        return "timedelta"
    if k in ("add_epoch", "fromtimestamp"):
        return "datetime"
    raise Cannot(term)


def _isinstance(test, cur_type):
    # isinstance(value, X) / not isinstance(value, X)
    if isinstance(test, ast.UnaryOp) and isinstance(test.op, ast.Not):
        return not _isinstance(test.operand, cur_type)
    if isinstance(test, ast.Call) and getattr(test.func, "id", None) == "isinstance":
        name = test.args[1].id if isinstance(test.args[1], ast.Name) else None
        if name in ("datetime", "timedelta"):
            return cur_type == name
        if name == "float":
            return cur_type == "float"
    raise Cannot(ast.dump(test))


def _expr(e, term, tag):
    """value-expression over the current term"""
    if isinstance(e, ast.Name) and e.id == "value":
        return term
    if isinstance(e, ast.BinOp) and isinstance(e.op, ast.Sub) and isinstance(e.right, ast.Name) and e.right.id == "UTC_ZERO":
        return ("sub_epoch", _expr(e.left, term, tag))
    if isinstance(e, ast.BinOp) and isinstance(e.op, ast.Add):
        l, r = e.left, e.right
        if isinstance(l, ast.Name) and l.id == "UTC_ZERO":
            return ("add_epoch", _expr(r, term, tag))
        if isinstance(r, ast.Name) and r.id == "UTC_ZERO":
            return ("add_epoch", _expr(l, term, tag))
    if isinstance(e, ast.Call):
        f = e.func
        if isinstance(f, ast.Attribute) and f.attr == "total_seconds" and not e.args:
            return ("total_seconds", _expr(f.value, term, tag))
        if isinstance(f, ast.Attribute) and f.attr == "fromtimestamp":
            tz_ok = any(k.arg == "tz" for k in e.keywords)
            if not tz_ok:
                return ("fromtimestamp_naive", _expr(e.args[0], term, tag))
            return ("fromtimestamp", _expr(e.args[0], term, tag))
        if isinstance(f, ast.Name) and f.id == "timedelta":
            kws = {k.arg: k.value for k in e.keywords}
            if set(kws) == {"seconds"} and not e.args:
                return ("td_from_seconds", _expr(kws["seconds"], term, tag))
            if set(kws) == {"microseconds"} and not e.args:
                return ("td_from_microseconds", _expr(kws["microseconds"], term, tag))
    if isinstance(e, ast.Attribute) and e.attr in ("seconds", "days", "microseconds"):
        return ("attr", e.attr, _expr(e.value, term, tag))
    if isinstance(e, ast.Call) and isinstance(e.func, ast.Name) and e.func.id == "float" and len(e.args) == 1:
        return _expr(e.args[0], term, tag)  # float() of a number: identity in the real-valued model
    if isinstance(e, ast.Call) and isinstance(e.func, ast.Name) and e.func.id in ("int", "round") and len(e.args) == 1:
        return (e.func.id, _expr(e.args[0], term, tag))
    if isinstance(e, ast.Tuple) or isinstance(e, ast.Constant):
        raise Cannot(ast.dump(e))
    raise Cannot(ast.dump(e))


def _exec(body, tag):
    term, cur = ("id",), tag
    for st in body:
        if isinstance(st, ast.Expr) and isinstance(st.value, ast.Constant):
            continue  # docstring
        if isinstance(st, ast.If):
            branch = st.body if _isinstance(st.test, cur) else st.orelse
            for b in branch:
                if isinstance(b, ast.If):  # elif
                    sub = b.body if _isinstance(b.test, cur) else b.orelse
                    for c in sub:
                        term, cur = _assign(c, term, tag, cur)
                else:
                    term, cur = _assign(b, term, tag, cur)
        elif isinstance(st, ast.Return):
            if not (isinstance(st.value, ast.Name) and st.value.id == "value"):
                term = _expr(st.value, term, tag)
            return term
        else:
            term, cur = _assign(st, term, tag, cur)
    raise Cannot("no return")


def _assign(st, term, tag, cur):
    if isinstance(st, ast.Assign) and len(st.targets) == 1 and getattr(st.targets[0], "id", None) == "value":
        t = _expr(st.value, term, tag)
        return t, _type_after_chain(t, tag)
    raise Cannot(ast.dump(st))


def _type_after_chain(term, tag):
    k = term[0]
    if k == "id":
        return tag
    if k in ("total_seconds", "attr", "int", "round"):
        return "float"
    if k in ("sub_epoch", "td_from_seconds", "td_from_microseconds"):
        return "timedelta"
    if k in ("add_epoch", "fromtimestamp", "fromtimestamp_naive"):
        return "datetime"
    raise Cannot(term)


# ------------------------------------------------------------------ SMT models of the primitives
def encode(term, x, solver, z3, fresh):
    """x: the z3 value of the input: Int microseconds for datetime/timedelta inputs, Real seconds for float inputs.
    Returns a z3 term of the result in the same convention (Int microseconds / Real seconds)."""
    k = term[0]
    if k == "id":
        return x
    if k in ("sub_epoch", "add_epoch"):
        return encode(term[1], x, solver, z3, fresh)  # exact integer microsecond arithmetic, epoch = 0
    if k == "total_seconds":
        u = encode(term[1], x, solver, z3, fresh)
        s = fresh("s", z3.Real)
        # correctly rounded int/int true division: |s*10^6 - u| <= 2^-53 |u|
        au = z3.If(u >= 0, u, -u)
        solver.add(s * US - z3.ToReal(u) <= z3.RealVal(EPS) * z3.ToReal(au), z3.ToReal(u) - s * US <= z3.RealVal(EPS) * z3.ToReal(au))
        return s
    if k in ("td_from_seconds", "fromtimestamp"):
        s = encode(term[1], x, solver, z3, fresh)
        u = fresh("u", z3.Int)
        # modf (exact), 10^6*frac rounded once (relative error 2^-53, |frac| < 1), round-half-even to an integer
        slack = z3.RealVal(Fraction(1, 2) + EPS * US)
        solver.add(z3.ToReal(u) - s * US <= slack, s * US - z3.ToReal(u) <= slack)
        return u
    if k in ("int", "round"):
        v = encode(term[1], x, solver, z3, fresh)
        i = fresh("i", z3.Int)
        if k == "int":  # truncation toward zero
            solver.add(z3.If(v >= 0, z3.And(z3.ToReal(i) <= v, v < z3.ToReal(i) + 1), z3.And(z3.ToReal(i) >= v, v > z3.ToReal(i) - 1)))
        else:
            solver.add(z3.ToReal(i) - v <= z3.RealVal(Fraction(1, 2)), v - z3.ToReal(i) <= z3.RealVal(Fraction(1, 2)))
        return z3.ToReal(i)
    if k == "attr":
        u = encode(term[2], x, solver, z3, fresh)
        name = term[1]
        # timedelta normalisation: days, seconds in [0, 86400), microseconds in [0, 10^6)
        q = fresh("q", z3.Int)
        if name == "microseconds":
            r = fresh("r", z3.Int)
            solver.add(u == q * US + r, r >= 0, r < US)
            return z3.ToReal(r)
        sec_total = fresh("st", z3.Int)
        r = fresh("r", z3.Int)
        solver.add(u == sec_total * US + r, r >= 0, r < US)
        if name == "days":
            d = fresh("d", z3.Int)
            r2 = fresh("r2", z3.Int)
            solver.add(sec_total == d * 86400 + r2, r2 >= 0, r2 < 86400)
            return z3.ToReal(d)
        d = fresh("d", z3.Int)
        r2 = fresh("r2", z3.Int)
        solver.add(sec_total == d * 86400 + r2, r2 >= 0, r2 < 86400)
        return z3.ToReal(r2)
    raise Cannot(term)


def _solver():
    import z3
    s = z3.Solver()
    n = [0]

    def fresh(p, sort):
        n[0] += 1
        return sort("%s%d" % (p, n[0]))
    return z3, s, fresh


def _terms():
    from reactivex.scheduler.scheduler import Scheduler
    return {"to_seconds": translate(Scheduler.to_seconds.__func__), "to_datetime": translate(Scheduler.to_datetime.__func__),
            "to_timedelta": translate(Scheduler.to_timedelta.__func__)}


def _real(kind, u):
    """the real RxPY conversion chain on a concrete microsecond count; returns the resulting microsecond count"""
    from reactivex.scheduler.scheduler import Scheduler, UTC_ZERO
    if kind == "timedelta":
        td = timedelta(microseconds=u)
        r = Scheduler.to_timedelta(Scheduler.to_seconds(td))
        return (r.days * 86400 + r.seconds) * US + r.microseconds
    d = UTC_ZERO + timedelta(microseconds=u)
    r = Scheduler.to_datetime(Scheduler.to_seconds(d)) - UTC_ZERO
    return (r.days * 86400 + r.seconds) * US + r.microseconds


BOUND_S = 2 ** 32  # seconds


def q_roundtrip(inst, timeout):
    """aligned value -> seconds -> same type: must be the identity for |t| < 2^32 s"""
    t0 = time.time()
    kind = inst["kind"]
    try:
        T = _terms()
        z3, s, fresh = _solver()
        u = z3.Int("u")
        B = BOUND_S * US
        s.add(u > -B, u < B)
        if kind == "datetime":
            s.add(u >= 0)  # datetime.fromtimestamp of negative timestamps is platform dependent: aware datetimes from the epoch on
        sec = encode(T["to_seconds"][kind], u, s, z3, fresh)
        back = encode(T["to_timedelta" if kind == "timedelta" else "to_datetime"]["float"], sec, s, z3, fresh)
        s.add(back != u)
        s.set("timeout", int(timeout * 1000))
        r = s.check()
    except Cannot as e:
        # the source left the translator's subset: not a pass.  Before reporting a harness error, look for a concrete
        # counterexample on the real functions (a reproduced violation is reported as such)
        rng = random.Random(7)
        B = BOUND_S * US
        for p in [0, 1, 999999, 10 ** 6, 86400 * US, 86400 * US + 1, B - 1] + [rng.randrange(0, B) for _ in range(5000)]:
            try:
                got = _real(kind, p)
            except Exception as ex:
                return {"status": "REFUTED", "replayed": True, "args": {"u": p}, "replay_detail": "real %s round trip of %d us raised %r" % (kind, p, ex)}
            if got != p:
                return {"status": "REFUTED", "replayed": True, "args": {"u": p},
                        "replay_detail": "real %s round trip of %d us gives %d us (found by concrete replay: translator cannot encode %r)" % (kind, p, got, e.args)}
        return {"status": "ERROR", "message": "translator cannot encode %r" % (e.args,)}
    res = {"queries": 1, "solver_s": round(time.time() - t0, 3), "paths": 1}
    if str(r) == "unsat":
        # primitive-model validation against CPython on boundary and random points (harness error on disagreement)
        rng = random.Random(int(__import__("os").environ.get("VERIF_SEED", "0") or 0))
        pts = [0, 1, -1 if kind == "timedelta" else 2, 999999, 10 ** 6, B - 1, B - 2, (B // 2) + 1, 1234567890123456]
        pts += [rng.randrange(0 if kind == "datetime" else -B + 1, B) for _ in range(2000)]
        bad = [p for p in pts if _real(kind, p) != p]
        if bad:
            return dict(res, status="REFUTED", replayed=True, args={"u": bad[0]}, replay_detail="real %s round trip of %d us gives %d" % (kind, bad[0], _real(kind, bad[0])),
                        message="solver says holds but CPython disagrees: model error or genuine violation")
        return dict(res, status="CONFIRMED", covered=["__end__"], sample={"validated_points": len(pts)})
    if str(r) == "sat":
        m = s.model()
        cu = m[u].as_long()
        got = _real(kind, cu)
        if got != cu:
            return dict(res, status="REFUTED", replayed=True, args={"u": cu}, replay_detail="real %s round trip of %d us gives %d us" % (kind, cu, got))
        # the relaxed model admits it but the real code does not: search nearby concretely before giving up
        rng = random.Random(1)
        B2 = BOUND_S * US
        for _ in range(20000):
            p = rng.randrange(0 if kind == "datetime" else -B2 + 1, B2)
            if _real(kind, p) != p:
                return dict(res, status="REFUTED", replayed=True, args={"u": p}, replay_detail="real %s round trip of %d us gives %d us" % (kind, p, _real(kind, p)))
        return dict(res, status="UNKNOWN", message="relaxed model counterexample u=%d does not reproduce on CPython" % cu)
    return dict(res, status="UNKNOWN", message="solver: %s" % r)


def q_limit(inst, timeout):
    """vacuity guard / stated limit of the claim: at 2^33 s the same query must be satisfiable (float64 resolution)"""
    t0 = time.time()
    T = _terms()
    z3, s, fresh = _solver()
    u = z3.Int("u")
    B = 2 * BOUND_S * US
    s.add(u > 0, u < B)
    sec = encode(T["to_seconds"]["timedelta"], u, s, z3, fresh)
    back = encode(T["to_timedelta"]["float"], sec, s, z3, fresh)
    s.add(back != u)
    r = s.check()
    res = {"queries": 1, "solver_s": round(time.time() - t0, 3), "paths": 1}
    return dict(res, status="CONFIRMED" if str(r) == "sat" else "UNKNOWN", covered=["__end__"], message="limit query: %s" % r)


def q_order(inst, timeout):
    """strict order of aligned values is preserved by to_seconds (u1 < u2 => s1 < s2) within the bound"""
    t0 = time.time()
    kind = inst["kind"]
    try:
        T = _terms()
        z3, s, fresh = _solver()
        u1, u2 = z3.Int("u1"), z3.Int("u2")
        B = BOUND_S * US
        s.add(u1 > -B, u2 < B, u1 < u2)
        s1 = encode(T["to_seconds"][kind], u1, s, z3, fresh)
        s2 = encode(T["to_seconds"][kind], u2, s, z3, fresh)
        s.add(s1 >= s2)
        r = s.check()
    except Cannot as e:
        return {"status": "ERROR", "message": "translator cannot encode %r" % (e.args,)}
    res = {"queries": 1, "solver_s": round(time.time() - t0, 3), "paths": 1}
    if str(r) == "unsat":
        return dict(res, status="CONFIRMED", covered=["__end__"])
    if str(r) == "sat":
        m = s.model()
        a, b = m[u1].as_long(), m[u2].as_long()
        from reactivex.scheduler.scheduler import Scheduler, UTC_ZERO
        mk = (lambda x: timedelta(microseconds=x)) if kind == "timedelta" else (lambda x: UTC_ZERO + timedelta(microseconds=x))
        if not Scheduler.to_seconds(mk(a)) < Scheduler.to_seconds(mk(b)):
            return dict(res, status="REFUTED", replayed=True, args={"u1": a, "u2": b}, replay_detail="to_seconds not strictly increasing on %d < %d" % (a, b))
        return dict(res, status="UNKNOWN", message="relaxed-model counterexample does not reproduce")
    return dict(res, status="UNKNOWN", message=str(r))


def q_identity(inst, timeout):
    """already-converted values are returned unchanged; now is an aware UTC datetime and routes through to_datetime / default_now"""
    t0 = time.time()
    try:
        T = _terms()
    except Cannot as e:
        return {"status": "ERROR", "message": "translator cannot encode %r" % (e.args,)}
    bad = []
    if T["to_seconds"]["float"] != ("id",):
        bad.append("to_seconds(float) = %r" % (T["to_seconds"]["float"],))
    if T["to_datetime"]["datetime"] != ("id",):
        bad.append("to_datetime(datetime) = %r" % (T["to_datetime"]["datetime"],))
    if T["to_timedelta"]["timedelta"] != ("id",):
        bad.append("to_timedelta(timedelta) = %r" % (T["to_timedelta"]["timedelta"],))
    if T["to_datetime"]["float"][0] != "fromtimestamp":
        bad.append("to_datetime(float) = %r (not an aware fromtimestamp)" % (T["to_datetime"]["float"],))
    from reactivex.scheduler import ImmediateScheduler, CurrentThreadScheduler, TimeoutScheduler, NewThreadScheduler, EventLoopScheduler
    from reactivex.scheduler.scheduler import Scheduler, UTC_ZERO
    from reactivex.internal.basic import default_now
    detail = []
    for mk in (ImmediateScheduler, CurrentThreadScheduler, TimeoutScheduler, NewThreadScheduler):
        n = mk().now
        if n.tzinfo is None or n.utcoffset() != timedelta(0):
            bad.append("%s.now is not an aware UTC datetime: %r" % (mk.__name__, n))
    n = default_now()
    if n.tzinfo is None or n.utcoffset() != timedelta(0):
        bad.append("default_now() is not aware UTC")
    if UTC_ZERO.tzinfo is None or UTC_ZERO != datetime(1970, 1, 1, tzinfo=timezone.utc):
        bad.append("UTC_ZERO is not the aware epoch")
    # replay of the identity claims on real values
    x = 1.25
    d = UTC_ZERO + timedelta(seconds=5)
    td = timedelta(seconds=7)
    if Scheduler.to_seconds(x) is not x or Scheduler.to_datetime(d) is not d or Scheduler.to_timedelta(td) is not td:
        bad.append("identity on already-converted values fails concretely")
    res = {"queries": 0, "solver_s": 0.0, "paths": 9, "wall_s": round(time.time() - t0, 2)}
    if bad:
        return dict(res, status="REFUTED", replayed=True, args={"findings": bad}, replay_detail="; ".join(bad))
    return dict(res, status="CONFIRMED", covered=["__end__"], message="dispatch terms: %r" % (T,))


def replay(fn_name, inst, args):
    """concrete re-execution of a counterexample on the real conversion functions"""
    from reactivex.scheduler.scheduler import Scheduler, UTC_ZERO
    if fn_name == "q_roundtrip":
        got = _real(inst["kind"], args["u"])
        return got == args["u"], "round trip of %d us gives %d us" % (args["u"], got)
    if fn_name == "q_order":
        mk = (lambda x: timedelta(microseconds=x)) if inst["kind"] == "timedelta" else (lambda x: UTC_ZERO + timedelta(microseconds=x))
        ok = Scheduler.to_seconds(mk(args["u1"])) < Scheduler.to_seconds(mk(args["u2"]))
        return ok, "to_seconds order on %d < %d" % (args["u1"], args["u2"])
    r = q_identity({}, 10)
    return r["status"] == "CONFIRMED", r.get("replay_detail", "")


def JOBS(tier):
    jobs = []
    for kind in ("timedelta", "datetime"):
        jobs.append({"fn": "q_roundtrip", "inst": {"kind": kind}})
        jobs.append({"fn": "q_order", "inst": {"kind": kind}})
    jobs.append({"fn": "q_limit", "inst": {}})
    jobs.append({"fn": "q_identity", "inst": {}})
    return jobs


ENCODED = ["reactivex/scheduler/scheduler.py", "reactivex/internal/basic.py"]
BOUNDS = {"quick": "|t| < 2^32 s (datetimes from the epoch on), microsecond-aligned values; at 2^33 s the round-trip query is "
                   "satisfiable (float64 resolution) -- that is the stated limit of the claim, not a finding",
          "thorough": "same queries"}
ASSUMES = ["IEEE-754 double arithmetic is over-approximated by the standard rounding-error model (sound for 'holds'); counterexamples "
           "are confirmed on CPython before being reported", "primitive models (total_seconds, timedelta(seconds=), fromtimestamp) "
           "validated against CPython on boundary and 2000 seeded random points per run",
           "order preservation is decided for aligned values (strict); weak monotonicity of the float->timedelta/datetime rounding "
           "for non-aligned floats is an IEEE monotonicity fact outside the relaxed model", "naive datetimes are outside"]
EXPLANATION = ("SMT arithmetic kernel: the isinstance dispatch of to_seconds/to_datetime/to_timedelta is translated from the AST of "
               "/repo's scheduler.py on every run; round-trip and strict-order queries over integer microseconds and reals with the "
               "rounding-error model are unsat within |t| < 2^32 s (z3, linear arithmetic); the 2^33 s query is sat (limit of the claim)")
MANIFEST = {
    "engine": "FPK",
    "text": "Solver-decided arithmetic lemma over the real dispatch code: for every microsecond-aligned timedelta / aware datetime with "
            "|t| < 2^32 s the round trip through float seconds is the identity and strict order is preserved; already-converted values "
            "are returned unchanged; now is aware UTC.  Level 'other': an arithmetic proof obligation under a sound rounding-error "
            "over-approximation, not a path exploration.",
    "note": "bounded to |t| < 2^32 s; primitive models validated against CPython each run.",
    "technique": "AST-to-SMT translation of the conversion dispatch; z3 (QF_LIRA) decides round-trip and order queries under the IEEE rounding-error model; counterexamples replayed on CPython",
}
