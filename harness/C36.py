"""C36 — time values convert consistently between representations.

Engine FPK: the isinstance-dispatch of Scheduler.to_seconds / to_datetime / to_timedelta is translated from the AST of /repo's
scheduler.py into terms over CPython datetime primitives; each primitive has an SMT model over integer microseconds and reals with
the standard rounding-error model of IEEE-754 double arithmetic (|fl(a/b) - a/b| <= 2^-53 |a/b|, round-to-nearest-integer as
|r - d| <= 1/2), a sound over-approximation decided by z3 in linear arithmetic.  Counterexamples are replayed on the real functions.
"""
import ast
import inspect
import random
import time
from datetime import datetime, timedelta, timezone
from fractions import Fraction

LEVEL = "other"
US = 10 ** 6
EPS = Fraction(1, 2 ** 53)


# ------------------------------------------------------------------ translator: AST -> dispatch terms
class Cannot(Exception):
    pass


def translate(fn):
    """symbolically execute the body of a conversion classmethod for each runtime type of `value`.
    Returns {tag: term} with terms like ('id',), ('total_seconds', t), ('sub_epoch', t), ('add_epoch', t),
    ('fromtimestamp', t), ('td_from_seconds', t), ('attr', name, t)"""
    src = inspect.getsource(fn)
    src = "\n".join(l[4:] if l.startswith("    ") else l for l in src.splitlines())
    tree = ast.parse(src)
    fdef = tree.body[0]
    out = {}
    for tag in ("float", "datetime", "timedelta"):
        out[tag] = _exec(fdef.body, tag)
    return out


def _type_after(term, tag):
    k = term[0]
    if k == "id":
        return tag
    if k in ("total_seconds", "attr"):
        return "float"
    if k in ("sub_epoch", "td_from_seconds"):
        return "timedelta"
    if k in ("add_epoch", "fromtimestamp"):
        return "datetime"
    raise Cannot(term)


def _isinstance(test, cur_type):
    # isinstance(value, X) / not isinstance(value, X)
    if isinstance(test, ast.UnaryOp) and isinstance(test.op, ast.Not):
        return not _isinstance(test.operand, cur_type)
    if isinstance(test, ast.Call) and getattr(test.func, "id", None) == "isinstance":
        name = test.args[1].id if isinstance(test.args[1], ast.Name) else None
        if name in ("datetime", "timedelta"):
            return cur_type == name
        if name == "float":
            return cur_type == "float"
    raise Cannot(ast.dump(test))


def _expr(e, term, tag):
    """value-expression over the current term"""
    if isinstance(e, ast.Name) and e.id == "value":
        return term
    if isinstance(e, ast.BinOp) and isinstance(e.op, ast.Sub) and isinstance(e.right, ast.Name) and e.right.id == "UTC_ZERO":
        return ("sub_epoch", _expr(e.left, term, tag))
    if isinstance(e, ast.BinOp) and isinstance(e.op, ast.Add):
        l, r = e.left, e.right
        if isinstance(l, ast.Name) and l.id == "UTC_ZERO":
            return ("add_epoch", _expr(r, term, tag))
        if isinstance(r, ast.Name) and r.id == "UTC_ZERO":
            return ("add_epoch", _expr(l, term, tag))
    if isinstance(e, ast.BinOp) and isinstance(e.op, (ast.Mult, ast.Div)):
        l, r = e.left, e.right
        if isinstance(r, ast.Constant) and isinstance(r.value, (int, float)) and r.value:
            return ("scale", Fraction(r.value) if isinstance(e.op, ast.Mult) else 1 / Fraction(r.value), _expr(l, term, tag))
        if isinstance(l, ast.Constant) and isinstance(l.value, (int, float)) and isinstance(e.op, ast.Mult):
            return ("scale", Fraction(l.value), _expr(r, term, tag))
    if isinstance(e, ast.Call):
        f = e.func
        if isinstance(f, ast.Attribute) and f.attr in ("replace", "astimezone"):
            # value.replace(tzinfo=timezone.utc): relabels the wall-clock fields; value.astimezone(timezone.utc): same instant
            arg = e.keywords[0].value if (f.attr == "replace" and len(e.keywords) == 1 and e.keywords[0].arg == "tzinfo" and not e.args) else \
                (e.args[0] if f.attr == "astimezone" and len(e.args) == 1 else None)
            is_utc = isinstance(arg, ast.Attribute) and arg.attr == "utc" and getattr(arg.value, "id", None) == "timezone"
            if is_utc:
                return ("as_utc" if f.attr == "replace" else "astz_utc", _expr(f.value, term, tag))
        if isinstance(f, ast.Attribute) and f.attr == "total_seconds" and not e.args:
            return ("total_seconds", _expr(f.value, term, tag))
        if isinstance(f, ast.Attribute) and f.attr == "fromtimestamp":
            tz_ok = any(k.arg == "tz" for k in e.keywords)
            if not tz_ok:
                return ("fromtimestamp_naive", _expr(e.args[0], term, tag))
            return ("fromtimestamp", _expr(e.args[0], term, tag))
        if isinstance(f, ast.Name) and f.id == "timedelta":
            kws = {k.arg: k.value for k in e.keywords}
            if set(kws) == {"seconds"} and not e.args:
                return ("td_from_seconds", _expr(kws["seconds"], term, tag))
            if set(kws) == {"microseconds"} and not e.args:
                return ("td_from_microseconds", _expr(kws["microseconds"], term, tag))
    if isinstance(e, ast.Attribute) and e.attr in ("seconds", "days", "microseconds"):
        return ("attr", e.attr, _expr(e.value, term, tag))
    if isinstance(e, ast.Call) and isinstance(e.func, ast.Name) and e.func.id == "float" and len(e.args) == 1:
        return _expr(e.args[0], term, tag)  # float() of a number: identity in the real-valued model
    if isinstance(e, ast.Call) and isinstance(e.func, ast.Name) and e.func.id in ("int", "round") and len(e.args) == 1:
        return (e.func.id, _expr(e.args[0], term, tag))
    if isinstance(e, ast.Tuple) or isinstance(e, ast.Constant):
        raise Cannot(ast.dump(e))
    raise Cannot(ast.dump(e))


def _exec(body, tag):
    term, cur = ("id",), tag
    for st in body:
        if isinstance(st, ast.Expr) and isinstance(st.value, ast.Constant):
            continue  # docstring
        if isinstance(st, ast.If):
            branch = st.body if _isinstance(st.test, cur) else st.orelse
            for b in branch:
                if isinstance(b, ast.If):  # elif
                    sub = b.body if _isinstance(b.test, cur) else b.orelse
                    for c in sub:
                        term, cur = _assign(c, term, tag, cur)
                else:
                    term, cur = _assign(b, term, tag, cur)
        elif isinstance(st, ast.Return):
            if not (isinstance(st.value, ast.Name) and st.value.id == "value"):
                term = _expr(st.value, term, tag)
            return term
        else:
            term, cur = _assign(st, term, tag, cur)
    raise Cannot("no return")


def _assign(st, term, tag, cur):
    if isinstance(st, ast.Assign) and len(st.targets) == 1 and getattr(st.targets[0], "id", None) == "value":
        t = _expr(st.value, term, tag)
        return t, _type_after_chain(t, tag)
    raise Cannot(ast.dump(st))


def _type_after_chain(term, tag):
    k = term[0]
    if k == "id":
        return tag
    if k in ("total_seconds", "attr", "int", "round"):
        return "float"
    if k in ("sub_epoch", "td_from_seconds", "td_from_microseconds"):
        return "timedelta"
    if k in ("add_epoch", "fromtimestamp", "fromtimestamp_naive", "as_utc", "astz_utc"):
        return "datetime"
    if k == "scale":
        return "float"
    raise Cannot(term)


# ------------------------------------------------------------------ SMT models of the primitives
def encode(term, x, solver, z3, fresh):
    """x: the z3 value of the input: Int microseconds for datetime/timedelta inputs, Real seconds for float inputs.
    Returns a z3 term of the result in the same convention (Int microseconds / Real seconds)."""
    k = term[0]
    if k == "id":
        return x
    if k == "sub_epoch":
        v = encode(term[1], x, solver, z3, fresh)  # aware datetime - epoch: the instant; exact integer microsecond arithmetic
        return v["w"] - v["o"] if isinstance(v, dict) else v
    if k == "add_epoch":
        return {"w": encode(term[1], x, solver, z3, fresh), "o": z3.IntVal(0)}
    if k in ("as_utc", "astz_utc"):
        v = encode(term[1], x, solver, z3, fresh)
        if not isinstance(v, dict):
            raise Cannot(term)
        return {"w": v["w"] if k == "as_utc" else v["w"] - v["o"], "o": z3.IntVal(0)}
    if k == "scale":
        v = encode(term[2], x, solver, z3, fresh)
        if isinstance(v, dict):
            raise Cannot(term)
        v = z3.ToReal(v) if z3.is_int(v) else v
        r = fresh("m", z3.Real)
        exact = v * z3.RealVal(term[1])
        ae = z3.If(exact >= 0, exact, -exact)
        solver.add(r - exact <= z3.RealVal(EPS) * ae, exact - r <= z3.RealVal(EPS) * ae)
        return r
    if k == "td_from_microseconds":
        v = encode(term[1], x, solver, z3, fresh)
        u = fresh("u", z3.Int)
        v = z3.ToReal(v) if z3.is_int(v) else v
        solver.add(z3.ToReal(u) - v <= z3.RealVal(Fraction(1, 2)), v - z3.ToReal(u) <= z3.RealVal(Fraction(1, 2)))
        return u
    if k == "total_seconds":
        u = encode(term[1], x, solver, z3, fresh)
        if isinstance(u, dict):
            raise Cannot(term)
        # total_seconds is a function of the microsecond count (equal instants give equal seconds)
        s = _TS(z3)(u)
        # correctly rounded int/int true division: |s*10^6 - u| <= 2^-53 |u|
        au = z3.If(u >= 0, u, -u)
        solver.add(s * US - z3.ToReal(u) <= z3.RealVal(EPS) * z3.ToReal(au), z3.ToReal(u) - s * US <= z3.RealVal(EPS) * z3.ToReal(au))
        return s
    if k in ("td_from_seconds", "fromtimestamp"):
        s = encode(term[1], x, solver, z3, fresh)
        if isinstance(s, dict):
            raise Cannot(term)
        s = z3.ToReal(s) if z3.is_int(s) else s
        u = fresh("u", z3.Int)
        # modf (exact), 10^6*frac rounded once (relative error 2^-53, |frac| < 1), round-half-even to an integer
        slack = z3.RealVal(Fraction(1, 2) + EPS * US)
        solver.add(z3.ToReal(u) - s * US <= slack, s * US - z3.ToReal(u) <= slack)
        return {"w": u, "o": z3.IntVal(0)} if k == "fromtimestamp" else u
    if k in ("int", "round"):
        v = encode(term[1], x, solver, z3, fresh)
        i = fresh("i", z3.Int)
        if k == "int":  # truncation toward zero
            solver.add(z3.If(v >= 0, z3.And(z3.ToReal(i) <= v, v < z3.ToReal(i) + 1), z3.And(z3.ToReal(i) >= v, v > z3.ToReal(i) - 1)))
        else:
            solver.add(z3.ToReal(i) - v <= z3.RealVal(Fraction(1, 2)), v - z3.ToReal(i) <= z3.RealVal(Fraction(1, 2)))
        return z3.ToReal(i)
    if k == "attr":
        u = encode(term[2], x, solver, z3, fresh)
        name = term[1]
        # timedelta normalisation: days, seconds in [0, 86400), microseconds in [0, 10^6)
        q = fresh("q", z3.Int)
        if name == "microseconds":
            r = fresh("r", z3.Int)
            solver.add(u == q * US + r, r >= 0, r < US)
            return z3.ToReal(r)
        sec_total = fresh("st", z3.Int)
        r = fresh("r", z3.Int)
        solver.add(u == sec_total * US + r, r >= 0, r < US)
        if name == "days":
            d = fresh("d", z3.Int)
            r2 = fresh("r2", z3.Int)
            solver.add(sec_total == d * 86400 + r2, r2 >= 0, r2 < 86400)
            return z3.ToReal(d)
        d = fresh("d", z3.Int)
        r2 = fresh("r2", z3.Int)
        solver.add(sec_total == d * 86400 + r2, r2 >= 0, r2 < 86400)
        return z3.ToReal(r2)
    raise Cannot(term)


_TSF = {}


def _TS(z3):
    if "f" not in _TSF:
        _TSF["f"] = z3.Function("total_seconds", z3.IntSort(), z3.RealSort())
    return _TSF["f"]


def _instant(v):
    return v["w"] - v["o"] if isinstance(v, dict) else v


DAY = 86400 * US


def _dt_input(z3, s, name, B):
    """an aware datetime: wall-clock microseconds w, UTC offset o (strictly between -24 h and 24 h), instant w - o in (-B, B)"""
    w, o = z3.Int(name + "_w"), z3.Int(name + "_o")
    s.add(o > -DAY, o < DAY, w - o > -B, w - o < B)
    return {"w": w, "o": o}


def _solver():
    import z3
    s = z3.Solver()
    n = [0]

    def fresh(p, sort):
        n[0] += 1
        return sort("%s%d" % (p, n[0]))
    return z3, s, fresh


def _terms():
    from reactivex.scheduler.scheduler import Scheduler
    return {"to_seconds": translate(Scheduler.to_seconds.__func__), "to_datetime": translate(Scheduler.to_datetime.__func__),
            "to_timedelta": translate(Scheduler.to_timedelta.__func__)}


def _mk(kind, u, off=0):
    """the concrete value of a kind: timedelta of u us / aware datetime at instant u us written with UTC offset `off` us"""
    from reactivex.scheduler.scheduler import UTC_ZERO
    if kind == "timedelta":
        return timedelta(microseconds=u)
    d = UTC_ZERO + timedelta(microseconds=u)
    return d.astimezone(timezone(timedelta(microseconds=off))) if off else d


def _us(td):
    return (td.days * 86400 + td.seconds) * US + td.microseconds


def _real(kind, u, off=0):
    """the real RxPY conversion chain on a concrete value; returns the resulting microsecond count (instant for datetimes).
    kinds: timedelta / datetime (through float seconds), datetime_td (datetime -> timedelta -> datetime)"""
    from reactivex.scheduler.scheduler import Scheduler, UTC_ZERO
    if kind == "timedelta":
        return _us(Scheduler.to_timedelta(Scheduler.to_seconds(_mk(kind, u))))
    d = _mk("datetime", u, off)
    if kind == "datetime_td":
        return _us(Scheduler.to_datetime(Scheduler.to_timedelta(d)) - UTC_ZERO)
    return _us(Scheduler.to_datetime(Scheduler.to_seconds(d)) - UTC_ZERO)


BOUND_S = 2 ** 32  # seconds
OFFS = [0, 1, -1, 3600 * US, -3600 * US, 2 * 3600 * US, 19800 * US, -DAY + 1, DAY - 1]


def _points(kind, rng, n):
    B = BOUND_S * US
    lo = -B + 1
    pts = [(p, 0) for p in (0, 1, -1, -1500000, -999999, -1000001, 999999, 10 ** 6, 1000001, 86400 * US, 86400 * US + 1, B - 1, B - 2, (B // 2) + 1,
                            1234567890123456)]
    for _ in range(n):
        pts.append((rng.randrange(lo, B), 0 if kind == "timedelta" else rng.choice(OFFS + [rng.randrange(-DAY + 1, DAY)])))
    if kind != "timedelta":
        pts += [(p, o) for p, _ in pts[:12] for o in OFFS[1:]]
    return pts


def _concrete_roundtrip(kind, n, seed):
    """concrete search on the real functions: returns a REFUTED result or None"""
    rng = random.Random(seed)
    for p, o in _points(kind, rng, n):
        try:
            got = _real(kind, p, o)
        except Exception as ex:  # noqa: BLE001
            return {"status": "REFUTED", "replayed": True, "args": {"u": p, "off": o}, "replay_detail": "real %s round trip of %d us (offset %d us) raised %r" % (kind, p, o, ex)}
        if got != p:
            return {"status": "REFUTED", "replayed": True, "args": {"u": p, "off": o},
                    "replay_detail": "real %s round trip of %d us (UTC offset %d us) gives %d us" % (kind, p, o, got)}
    return None


def q_roundtrip(inst, timeout):
    """aligned value -> seconds (or timedelta) -> same type: must be the identity for |t| < 2^32 s, for every UTC offset"""
    t0 = time.time()
    kind = inst["kind"]
    try:
        T = _terms()
        z3, s, fresh = _solver()
        B = BOUND_S * US
        if kind == "timedelta":
            u = z3.Int("u")
            s.add(u > -B, u < B)
            x, inst_u = u, u
        else:
            # instants before the epoch included (datetime.fromtimestamp accepts negative timestamps on this platform)
            x = _dt_input(z3, s, "d", B)
            inst_u = _instant(x)
        if kind == "datetime_td":
            mid = encode(T["to_timedelta"]["datetime"], x, s, z3, fresh)
            back = encode(T["to_datetime"]["timedelta"], mid, s, z3, fresh)
        else:
            sec = encode(T["to_seconds"]["datetime" if kind != "timedelta" else kind], x, s, z3, fresh)
            back = encode(T["to_timedelta" if kind == "timedelta" else "to_datetime"]["float"], sec, s, z3, fresh)
        s.add(_instant(back) != inst_u)
        s.set("timeout", int(timeout * 1000))
        r = s.check()
    except Cannot as e:
        # the source left the translator's subset: not a pass.  Before reporting a harness error, look for a concrete
        # counterexample on the real functions (a reproduced violation is reported as such)
        hit = _concrete_roundtrip(kind, 5000, 7)
        if hit:
            hit["replay_detail"] += " (found by concrete replay: translator cannot encode %r)" % (e.args,)
            return hit
        return {"status": "ERROR", "message": "translator cannot encode %r" % (e.args,)}
    res = {"queries": 1, "solver_s": round(time.time() - t0, 3), "paths": 1}
    if str(r) == "unsat":
        # primitive-model validation against CPython on boundary and random points (a disagreement is a model error or a violation)
        hit = _concrete_roundtrip(kind, 2000, int(__import__("os").environ.get("VERIF_SEED", "0") or 0))
        if hit:
            return dict(res, message="solver says holds but CPython disagrees: model error or genuine violation", **hit)
        return dict(res, status="CONFIRMED", covered=["__end__"], sample={"validated_points": 2000})
    if str(r) == "sat":
        m = s.model()
        if kind == "timedelta":
            cu, co = m.eval(u, model_completion=True).as_long(), 0
        else:
            co = m.eval(x["o"], model_completion=True).as_long()
            cu = m.eval(x["w"], model_completion=True).as_long() - co
        try:
            got = _real(kind, cu, co)
        except Exception as ex:  # noqa: BLE001
            got = repr(ex)
        if got != cu:
            return dict(res, status="REFUTED", replayed=True, args={"u": cu, "off": co},
                        replay_detail="real %s round trip of %d us (UTC offset %d us) gives %s us" % (kind, cu, co, got))
        # the relaxed model admits it but the real code does not at this point: search concretely before giving up
        hit = _concrete_roundtrip(kind, 20000, 1)
        if hit:
            return dict(res, **hit)
        return dict(res, status="UNKNOWN", message="relaxed model counterexample u=%d off=%d does not reproduce on CPython" % (cu, co))
    return dict(res, status="UNKNOWN", message="solver: %s" % r)


def q_limit(inst, timeout):
    """vacuity guard / stated limit of the claim: at 2^33 s the same query must be satisfiable (float64 resolution)"""
    t0 = time.time()
    try:
        T = _terms()
        z3, s, fresh = _solver()
        u = z3.Int("u")
        B = 2 * BOUND_S * US
        s.add(u > 0, u < B)
        sec = encode(T["to_seconds"]["timedelta"], u, s, z3, fresh)
        back = encode(T["to_timedelta"]["float"], sec, s, z3, fresh)
        s.add(back != u)
        r = s.check()
    except Cannot as e:
        return {"status": "UNKNOWN", "message": "translator cannot encode %r (limit query not posed)" % (e.args,)}
    res = {"queries": 1, "solver_s": round(time.time() - t0, 3), "paths": 1}
    return dict(res, status="CONFIRMED" if str(r) == "sat" else "UNKNOWN", covered=["__end__"], message="limit query: %s" % r)


def _concrete_order(kind, n, seed):
    from reactivex.scheduler.scheduler import Scheduler
    rng = random.Random(seed)
    pts = _points(kind, rng, n)
    for i in range(len(pts) - 1):
        (a, oa), (b, ob) = pts[i], pts[i + 1]
        for (p, op), (q, oq) in (((a, oa), (b, ob)), ((a, oa), (a + 1, ob)), ((a, oa), (a, ob))):
            try:
                sp, sq = Scheduler.to_seconds(_mk(kind, p, op)), Scheduler.to_seconds(_mk(kind, q, oq))
                tp, tq = Scheduler.to_timedelta(_mk(kind, p, op)), Scheduler.to_timedelta(_mk(kind, q, oq))
            except Exception as ex:  # noqa: BLE001
                return {"status": "REFUTED", "replayed": True, "args": {"u1": p, "o1": op, "u2": q, "o2": oq}, "replay_detail": "to_seconds raised %r" % (ex,)}
            if (p < q) != (sp < sq) or (p == q) != (sp == sq) or (p < q) != (tp < tq) or (p == q) != (tp == tq):
                return {"status": "REFUTED", "replayed": True, "args": {"u1": p, "o1": op, "u2": q, "o2": oq},
                        "replay_detail": "%s values at instants %d us (offset %d) and %d us (offset %d): to_seconds %r vs %r, to_timedelta %r vs %r"
                                         % (kind, p, op, q, oq, sp, sq, tp, tq)}
    return None


def q_order(inst, timeout):
    """order of aligned values is preserved by to_seconds (u1 < u2 => s1 < s2; same instant in two zones => same seconds and
    same timedelta) within the bound, for every pair of UTC offsets"""
    t0 = time.time()
    kind = inst["kind"]
    try:
        T = _terms()
        z3, s, fresh = _solver()
        B = BOUND_S * US
        if kind == "timedelta":
            u1, u2 = z3.Int("u1"), z3.Int("u2")
            s.add(u1 > -B, u1 < B, u2 > -B, u2 < B)
            x1, x2 = u1, u2
        else:
            x1, x2 = _dt_input(z3, s, "a", B), _dt_input(z3, s, "b", B)
            u1, u2 = _instant(x1), _instant(x2)
        s1 = encode(T["to_seconds"][kind], x1, s, z3, fresh)
        s2 = encode(T["to_seconds"][kind], x2, s, z3, fresh)
        t1 = encode(T["to_timedelta"][kind], x1, s, z3, fresh)
        t2 = encode(T["to_timedelta"][kind], x2, s, z3, fresh)
        s.add(z3.Or(z3.And(u1 < u2, z3.Or(s1 >= s2, t1 >= t2)), z3.And(u1 == u2, z3.Or(s1 != s2, t1 != t2))))
        s.set("timeout", int(timeout * 1000))
        r = s.check()
    except Cannot as e:
        hit = _concrete_order(kind, 3000, 7)
        if hit:
            hit["replay_detail"] += " (found by concrete replay: translator cannot encode %r)" % (e.args,)
            return hit
        return {"status": "ERROR", "message": "translator cannot encode %r" % (e.args,)}
    res = {"queries": 1, "solver_s": round(time.time() - t0, 3), "paths": 1}
    if str(r) == "unsat":
        hit = _concrete_order(kind, 1000, int(__import__("os").environ.get("VERIF_SEED", "0") or 0))
        if hit:
            return dict(res, message="solver says holds but CPython disagrees: model error or genuine violation", **hit)
        return dict(res, status="CONFIRMED", covered=["__end__"])
    if str(r) == "sat":
        m = s.model()
        ev = lambda t: m.eval(t, model_completion=True).as_long()  # noqa: E731
        if kind == "timedelta":
            args = {"u1": ev(u1), "o1": 0, "u2": ev(u2), "o2": 0}
        else:
            args = {"u1": ev(x1["w"]) - ev(x1["o"]), "o1": ev(x1["o"]), "u2": ev(x2["w"]) - ev(x2["o"]), "o2": ev(x2["o"])}
        ok, detail = replay("q_order", inst, args)
        if not ok:
            return dict(res, status="REFUTED", replayed=True, args=args, replay_detail=detail)
        hit = _concrete_order(kind, 5000, 1)
        if hit:
            return dict(res, **hit)
        return dict(res, status="UNKNOWN", message="relaxed-model counterexample %r does not reproduce" % (args,))
    return dict(res, status="UNKNOWN", message=str(r))


def q_identity(inst, timeout):
    """already-converted values are returned unchanged; now is an aware UTC datetime and routes through to_datetime / default_now"""
    t0 = time.time()
    cannot = None
    try:
        T = _terms()
    except Cannot as e:
        T, cannot = None, e
    bad = []
    if T is not None:
        if T["to_seconds"]["float"] != ("id",):
            bad.append("to_seconds(float) = %r" % (T["to_seconds"]["float"],))
        if T["to_datetime"]["datetime"] != ("id",):
            bad.append("to_datetime(datetime) = %r" % (T["to_datetime"]["datetime"],))
        if T["to_timedelta"]["timedelta"] != ("id",):
            bad.append("to_timedelta(timedelta) = %r" % (T["to_timedelta"]["timedelta"],))
        if "fromtimestamp_naive" in repr(T["to_datetime"]["float"]):
            bad.append("to_datetime(float) = %r (a naive datetime)" % (T["to_datetime"]["float"],))
    from reactivex.scheduler import ImmediateScheduler, CurrentThreadScheduler, TimeoutScheduler, NewThreadScheduler, EventLoopScheduler
    from reactivex.scheduler.scheduler import Scheduler, UTC_ZERO
    from reactivex.internal.basic import default_now
    detail = []
    for mk in (ImmediateScheduler, CurrentThreadScheduler, TimeoutScheduler, NewThreadScheduler):
        n = mk().now
        if n.tzinfo is None or n.utcoffset() != timedelta(0):
            bad.append("%s.now is not an aware UTC datetime: %r" % (mk.__name__, n))
    n = default_now()
    if n.tzinfo is None or n.utcoffset() != timedelta(0):
        bad.append("default_now() is not aware UTC")
    if UTC_ZERO.tzinfo is None or UTC_ZERO != datetime(1970, 1, 1, tzinfo=timezone.utc):
        bad.append("UTC_ZERO is not the aware epoch")
    # replay of the identity claims on real values
    x = 1.25
    d = UTC_ZERO + timedelta(seconds=5)
    td = timedelta(seconds=7)
    if Scheduler.to_seconds(x) is not x or Scheduler.to_datetime(d) is not d or Scheduler.to_timedelta(td) is not td:
        bad.append("identity on already-converted values fails concretely")
    for off in OFFS[1:]:
        for u in (0, 5 * US, 1234567, -1500000):
            d2 = _mk("datetime", u, off)  # the same kind of value written in another zone
            r2 = Scheduler.to_datetime(d2)
            if r2 != d2 or r2.utcoffset() != d2.utcoffset():
                bad.append("to_datetime changes an aware datetime given with UTC offset %d us: %r -> %r" % (off, d2, r2))
                break
    res = {"queries": 0, "solver_s": 0.0, "paths": 9, "wall_s": round(time.time() - t0, 2)}
    if bad:
        return dict(res, status="REFUTED", replayed=True, args={"findings": bad[:4]}, replay_detail="; ".join(bad[:4]))
    if cannot is not None:
        return dict(res, status="ERROR", message="translator cannot encode %r (the concrete identity checks passed)" % (cannot.args,))
    return dict(res, status="CONFIRMED", covered=["__end__"], message="dispatch terms: %r" % (T,))


def replay(fn_name, inst, args):
    """concrete re-execution of a counterexample on the real conversion functions"""
    from reactivex.scheduler.scheduler import Scheduler
    if fn_name == "q_roundtrip":
        try:
            got = _real(inst["kind"], args["u"], args.get("off", 0))
        except Exception as ex:  # noqa: BLE001
            return False, "round trip raised %r" % (ex,)
        return got == args["u"], "round trip of %d us (UTC offset %d us) gives %s us" % (args["u"], args.get("off", 0), got)
    if fn_name == "q_order":
        kind = inst["kind"]
        p, q = _mk(kind, args["u1"], args.get("o1", 0)), _mk(kind, args["u2"], args.get("o2", 0))
        sp, sq, tp, tq = Scheduler.to_seconds(p), Scheduler.to_seconds(q), Scheduler.to_timedelta(p), Scheduler.to_timedelta(q)
        a, b = args["u1"], args["u2"]
        ok = (a < b) == (sp < sq) and (a == b) == (sp == sq) and (a < b) == (tp < tq) and (a == b) == (tp == tq)
        return ok, "instants %d / %d us: to_seconds %r / %r, to_timedelta %r / %r" % (a, b, sp, sq, tp, tq)
    r = q_identity({}, 10)
    return r["status"] == "CONFIRMED", r.get("replay_detail", "")


def JOBS(tier):
    jobs = []
    for kind in ("timedelta", "datetime"):
        jobs.append({"fn": "q_roundtrip", "inst": {"kind": kind}})
        jobs.append({"fn": "q_order", "inst": {"kind": kind}})
    jobs.append({"fn": "q_roundtrip", "inst": {"kind": "datetime_td"}})
    jobs.append({"fn": "q_limit", "inst": {}})
    jobs.append({"fn": "q_identity", "inst": {}})
    return jobs


ENCODED = ["reactivex/scheduler/scheduler.py", "reactivex/internal/basic.py"]
BOUNDS = {"quick": "|t| < 2^32 s (datetimes on both sides of the epoch, written with any UTC offset strictly between -24 h and 24 h), "
                   "microsecond-aligned values; at 2^33 s the round-trip query is "
                   "satisfiable (float64 resolution) -- that is the stated limit of the claim, not a finding",
          "thorough": "same queries"}
ASSUMES = ["IEEE-754 double arithmetic is over-approximated by the standard rounding-error model (sound for 'holds'); counterexamples "
           "are confirmed on CPython before being reported", "primitive models (total_seconds, timedelta(seconds=), fromtimestamp) "
           "validated against CPython on boundary and 2000 seeded random points per run",
           "order preservation is decided for aligned values (strict); weak monotonicity of the float->timedelta/datetime rounding "
           "for non-aligned floats is an IEEE monotonicity fact outside the relaxed model", "naive datetimes are outside"]
EXPLANATION = ("SMT arithmetic kernel: the isinstance dispatch of to_seconds/to_datetime/to_timedelta is translated from the AST of "
               "/repo's scheduler.py on every run; round-trip and strict-order queries over integer microseconds and reals with the "
               "rounding-error model are unsat within |t| < 2^32 s (z3, linear arithmetic); the 2^33 s query is sat (limit of the claim)")
MANIFEST = {
    "engine": "FPK",
    "text": "Solver-decided arithmetic lemma over the real dispatch code: for every microsecond-aligned timedelta / aware datetime with "
            "|t| < 2^32 s the round trip through float seconds is the identity and strict order is preserved; already-converted values "
            "are returned unchanged; now is aware UTC.  Level 'other': an arithmetic proof obligation under a sound rounding-error "
            "over-approximation, not a path exploration.",
    "note": "bounded to |t| < 2^32 s; primitive models validated against CPython each run.",
    "technique": "AST-to-SMT translation of the conversion dispatch; z3 (QF_LIRA) decides round-trip and order queries under the IEEE rounding-error model; counterexamples replayed on CPython",
}
