"""C30 — trampoline scheduling is same-thread, FIFO and never nested.  Trees of nested calls (XH) + two threads (GT)."""
import datetime as _dt
import threading

import reactivex.scheduler.currentthreadscheduler as m_cts
import reactivex.scheduler.trampoline as m_tramp
import reactivex.scheduler.trampolinescheduler as m_ts
from reactivex.internal.constants import UTC_ZERO
from reactivex.scheduler import CurrentThreadScheduler, TrampolineScheduler

from engine import gate
from engine.api import I, harness, cover

SEC = [_dt.timedelta(seconds=k) for k in range(0, 12)]  # real timedeltas created at import time (outside CrossHair's tracing)


class Clk:
    t = 0


class _WaitAdvances:
    """single-thread contract stub for threading.Condition inside the trampoline: nobody can notify, so wait(timeout) returns after
    the timeout has elapsed on the controlled clock"""

    def __init__(self, lock=None):
        self.lock = lock or threading.RLock()

    def __enter__(self):
        return self.lock.__enter__()

    def __exit__(self, *a):
        return self.lock.__exit__(*a)

    def wait(self, timeout=None):
        if timeout is None:
            raise AssertionError("the trampoline would block forever")
        Clk.t += int(timeout) if timeout == int(timeout) else timeout
        return False

    def notify(self, n=1):
        pass

    notify_all = notify


def mk_scheduler(kind):
    base = TrampolineScheduler if kind == "trampoline" else CurrentThreadScheduler

    class Controlled(base):
        @property
        def now(self):
            return UTC_ZERO + SEC[Clk.t] if isinstance(Clk.t, int) and Clk.t < len(SEC) else UTC_ZERO + _dt.timedelta(seconds=Clk.t)

    return Controlled()


def concretize(x, lo, hi):
    for c in range(lo, hi + 1):
        if x == c:
            return c
    return hi


M = 4


def _inst(tier):
    import itertools
    out = []
    for kind in ("trampoline", "current_thread"):
        for par in itertools.product((0,), (0, 1), (0, 1, 2)):  # parents of nodes 1..3 (node 0 is scheduled from outside)
            out.append({"kind": kind, "par": list(par)})
    return out


@harness(instances=_inst, k=I(0, 3, n=M), cn=I(0, M, n=2), timeout=(150, 900), stock=False)
def h_tree(a, inst):
    """node i: scheduled by its parent (immediately, or relatively after d_i seconds when rel_i), and when it runs it cancels the
    handle of node can_i (if that node was already scheduled; M = cancels nothing).  Reference: queue ordered by (due, seq)"""
    kind = inst["kind"]
    par = [-1] + inst["par"]
    # per node: 0 immediate, 1..3 relative with delay 0..2 s; nodes 1 and 2 may cancel the handle of one node
    kk = [concretize(x, 0, 3) for x in a.k]
    rel = [1 if x else 0 for x in kk]
    d = [max(x - 1, 0) for x in kk]
    can = [M, concretize(a.cn[0], 0, M), concretize(a.cn[1], 0, M), M]
    Clk.t = 0
    saved = (m_tramp.Condition,)
    m_tramp.Condition = _WaitAdvances
    try:
        sch = mk_scheduler(kind)
        log, handles, depth = [], {}, [0]
        me = threading.get_ident()
        bad = []

        def submit(s, i):
            act = mk(i)
            if rel[i]:
                handles[i] = s.schedule_relative(SEC[d[i]], act)
            else:
                handles[i] = s.schedule(act)

        def mk(i):
            def action(scheduler, state):
                if depth[0]:
                    bad.append("nested")
                if threading.get_ident() != me:
                    bad.append("thread")
                depth[0] += 1
                log.append((i, Clk.t))
                for j in range(1, M):
                    if par[j] == i:
                        submit(scheduler, j)
                if can[i] < M and can[i] in handles:
                    handles[can[i]].dispose()
                depth[0] -= 1
            return action

        submit(sch, 0)
    finally:
        m_tramp.Condition = saved[0]
    if bad:
        return False
    # reference
    clock, seq, q, out, cancelled, scheduled = 0, 0, [], [], set(), set()

    def push(i, now):
        nonlocal seq
        seq += 1
        q.append((now + (d[i] if rel[i] else 0), seq, i))
        scheduled.add(i)

    push(0, 0)
    while q:
        q.sort()
        due, s_, i = q.pop(0)
        if due > clock:
            clock = due
        if i in cancelled:
            continue
        out.append((i, clock))
        for j in range(1, M):
            if par[j] == i:
                push(j, clock)
        if can[i] < M and can[i] in scheduled:
            cancelled.add(can[i])
    cover("ran")
    return log == out


# ------------------------------------------------------------------ two threads (GT)
class GClock:
    pass


def mk_gated(kind):
    base = TrampolineScheduler if kind == "trampoline" else CurrentThreadScheduler

    class Controlled(base):
        @property
        def now(self):
            t = gate.Clock.t
            return UTC_ZERO + _dt.timedelta(seconds=t)

    return Controlled


SCEN = ["shared_trampoline_timed", "shared_trampoline_immediate", "current_thread_each", "current_thread_singleton"]


def _ginst(tier):
    return [{"scen": s, "P": 1 if tier == "quick" else 2} for s in SCEN]


_BASE = {}


@harness(instances=_ginst, p0=I(0, 200), pos=I(0, 200, n=lambda i: i["P"] - 1), tgt=I(0, 1, n=lambda i: i["P"]), timeout=(240, 1800), stock=False)
def h_two_threads(a, inst):
    """two threads on one shared TrampolineScheduler (actions serial, FIFO by due time, never nested, never before their due time on
    the controlled clock -- also after an early wake-up by the other thread's notify), and two threads each on the current-thread
    scheduler (independent trampolines: each thread's actions run on that thread)"""
    gate.GRANULARITY = "coarse"
    scen = inst["scen"]

    def run(preempts):
        with gate.install(m_tramp, m_ts, m_cts):
            gate.watch(m_tramp, m_ts)
            g = gate.Gate()
            S = mk_gated("trampoline")()
            CT = mk_gated("current_thread")
            log, bad, inside = [], [], [0]

            def act(name, due):
                def action(scheduler, state):
                    if inside[0]:
                        bad.append("nested/overlap")
                    inside[0] += 1
                    if gate.Clock.t < due:
                        bad.append("early %s at %s < %s" % (name, gate.Clock.t, due))
                    log.append((name, g.me()))
                    idx = g.me()
                    if idx is not None:
                        g.yield_point(idx, "in-action")
                    inside[0] -= 1
                return action

            if scen == "shared_trampoline_timed":
                g.spawn(lambda: S.schedule_relative(_dt.timedelta(seconds=2), act("T", 2)))
                g.spawn(lambda: S.schedule_relative(_dt.timedelta(seconds=5), act("U", 5)))
            elif scen == "shared_trampoline_immediate":
                g.spawn(lambda: (S.schedule(act("A1", 0)), S.schedule(act("A2", 0))))
                g.spawn(lambda: S.schedule(act("B1", 0)))
            elif scen == "current_thread_singleton":
                # CurrentThreadScheduler.singleton() from two threads: one trampoline per thread -- an action scheduled by a
                # thread runs on that thread, before its outermost schedule() call returns, even while the other thread is
                # in the middle of an action of its own
                def w2(name):
                    def body():
                        s = CurrentThreadScheduler.singleton()
                        me = g.me()
                        mine = []

                        def outer(sc, st):
                            mine.append(("outer", g.me()))
                            idx = g.me()
                            if idx is not None:
                                g.yield_point(idx, "in-action")
                            sc.schedule(lambda sc2, st2: mine.append(("inner", g.me())))
                        s.schedule(outer)
                        if mine != [("outer", me), ("inner", me)]:
                            bad.append("singleton current-thread work of %s: %r" % (name, mine))
                    return body
                g.spawn(w2("a"))
                g.spawn(w2("b"))
            else:
                def w(name):
                    def body():
                        s = CT()
                        me = g.me()
                        mine = []
                        s.schedule(lambda sc, st: (mine.append(g.me()), sc.schedule(lambda sc2, st2: mine.append(g.me()))))
                        if mine != [me, me]:
                            bad.append("current-thread action ran on another thread: %r" % (mine,))
                    return body
                g.spawn(w("a"))
                g.spawn(w("b"))
            r = g.run(preempts, maxsteps=3000)
            ok = r == "done" and not g.errors and not bad
            if __import__("os").environ.get("VERIF_DEBUG"):
                print("DEBUG", r, g.errors, bad, log, file=__import__("sys").stderr)
            if not ok and __import__("os").environ.get("VERIF_DEBUG"):
                print("DEBUG", r, g.errors, bad, log, file=__import__("sys").stderr)
            if scen == "shared_trampoline_timed":
                ok = ok and [n for n, _ in log] == ["T", "U"]
            elif scen == "shared_trampoline_immediate":
                names = [n for n, _ in log]
                ok = ok and sorted(names) == ["A1", "A2", "B1"] and names.index("A1") < names.index("A2")
            return ok, g.steps

    key = scen
    if key not in _BASE:
        _BASE[key] = run([])
    ok0, L = _BASE[key]
    if not ok0:
        return False
    pre = [a.p0] + list(a.pos)
    preempts = []
    for i in range(inst["P"]):
        if pre[i] > L + 2:
            return True  # beyond the end of the run
        preempts.append((gate.concrete(pre[i], 0, L + 2), gate.concrete(a.tgt[i], 0, 1)))
    with gate.untraced():
        ok, _ = run(preempts)
    cover("ran")
    return ok


ENCODED = ["reactivex/scheduler/trampoline.py", "reactivex/scheduler/trampolinescheduler.py", "reactivex/scheduler/currentthreadscheduler.py",
           "reactivex/scheduler/scheduleditem.py", "reactivex/internal/priorityqueue.py"]
BOUNDS = {"quick": "trees of 4 nested scheduling nodes (every parent assignment; each node immediate or relative with delay 0..2 s; nodes 1 and 2 "
                   "cancelling the handle of any one node or none) on TrampolineScheduler and CurrentThreadScheduler with a controlled "
                   "clock; two threads: a shared TrampolineScheduler with timed and with immediate actions, and one CurrentThreadScheduler "
                   "per thread (own instances, and the process-wide singleton), 1 preemption (coarse yield points: writes, calls, lock/condition operations, inside actions)",
          "thorough": "2 preemptions"}
ASSUMES = ["the scheduler's now is a controlled clock; threading.Condition inside the trampoline is replaced by a contract stub (one thread: "
           "wait(timeout) returns after the timeout on the controlled clock; two threads: gate-aware Condition/Lock)",
           "'on the scheduling thread' is claimed for the current-thread scheduler; a shared TrampolineScheduler runs queued work on "
           "whichever thread is draining it (serial, FIFO, never nested)"]
MANIFEST = {
    "engine": "XH+GT",
    "text": "Bounded symbolic model checking: (1) the shape of a tree of nested schedule / schedule_relative / cancel calls (delays, "
            "cancel targets) is solver-enumerated and the run order and clock readings must equal a (due, seq) reference queue, never "
            "nested, on the calling thread; (2) gate-serialised real threads with symbolic preemption schedules on a shared trampoline "
            "and on per-thread current-thread schedulers.",
    "note": "4 nodes; 2 threads, P<=1 (quick) / 2.",
}
