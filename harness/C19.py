"""C19 — grouping routes each element to exactly one live group."""
import reactivex
from reactivex import operators as ops

from engine.api import I, harness, cover
from engine.lib import SRC_ERR, make_scheduler, messages, on_completed, on_next, rec_tuples, times_from_gaps


class Groups:
    def __init__(self, sch):
        self.sch, self.groups = sch, []

    def attach(self, g):
        rec = {"key": g.key, "open_t": self.sch.clock, "items": [], "end": None}
        self.groups.append(rec)
        g.subscribe(lambda v: rec["items"].append((self.sch.clock, v)), lambda e: rec.__setitem__("end", (self.sch.clock, "E")),
                    lambda: rec.__setitem__("end", (self.sch.clock, "C")))


def _inst(tier):
    nm = 3 if tier == "quick" else 4
    out = []
    for o in ("group_by", "group_by_until", "group_by_until_never"):
        for n in range(0, nm + 1):
            if o == "group_by_until" and n >= 3 and tier == "quick":
                continue  # expiring groups with three elements need the thorough budget
            if o == "group_by_until" and n >= 3:
                out += [{"op": o, "N": n, "M": m} for m in (1, 2, 3)]  # split on the number of keys
            else:
                out.append({"op": o, "N": n, "M": 0})
    return out


@harness(instances=_inst, v=I(0, 3, n=lambda i: i["N"]), g=I(0, 3, n=lambda i: i["N"]), tg=I(0, 3), term=I(0, 2),
         m=I(lambda i: i["M"] or 1, lambda i: i["M"] or 3), d=I(1, 3), dk=I(0, 1), timeout=(120, 900))
def h_group(a, inst):
    n = inst["N"]
    sch = make_scheduler()
    xs = list(a.v)
    ts = times_from_gaps(a.g)
    tt = (ts[-1] if ts else 210) + a.tg
    src = sch.create_hot_observable(messages(xs, a.g, a.term, a.tg))
    gl = Groups(sch)
    key = lambda x: x % a.m  # noqa: E731
    elem = lambda x: 10 + x  # noqa: E731
    if inst["op"] == "group_by":
        op = ops.group_by(key, elem)
        dur = None
    elif inst["op"] == "group_by_until_never":
        op = ops.group_by_until(key, elem, lambda grp: reactivex.never())
        dur = None
    else:
        # the duration of a group fires d ticks after the group was emitted: by emitting (dk=0) or by completing empty (dk=1)
        dsrc = sch.create_cold_observable(on_next(a.d, 0)) if a.dk == 0 else sch.create_cold_observable(on_completed(a.d))
        op = ops.group_by_until(key, elem, lambda grp: dsrc)
        dur = a.d
    res = sch.start(lambda: src.pipe(op, ops.do_action(gl.attach)), disposed=260)
    outer = rec_tuples(res.messages)
    # reference
    exp, live = [], {}
    for x, t in zip(xs, ts):
        k = key(x)
        cur = live.get(k)
        if cur is not None and dur is not None and cur["open_t"] + dur < t:
            cur["end"] = (cur["open_t"] + dur, "C")  # expired strictly before this arrival
            cur = None
        if cur is None:
            cur = {"key": k, "open_t": t, "items": [], "end": None}
            exp.append(cur)
            live[k] = cur
        cur["items"].append((t, elem(x)))
    for grp in exp:
        if grp["end"] is None:
            natural = grp["open_t"] + dur if dur is not None else None
            if a.term != 0 and (natural is None or tt <= natural):
                grp["end"] = (tt, "C" if a.term == 1 else "E")
            elif natural is not None:
                grp["end"] = (natural, "C")
    if len(gl.groups) != len(exp):
        return False
    for g1, g2 in zip(gl.groups, exp):
        if g1["key"] != g2["key"] or g1["open_t"] != g2["open_t"] or g1["items"] != g2["items"] or g1["end"] != g2["end"]:
            return False
    # outer: one notification per group at its opening instant, then the source's terminal
    ot = [(t, k) for t, k, _ in outer]
    want = [(g2["open_t"], "N") for g2 in exp]
    if a.term == 1:
        want.append((tt, "C"))
    elif a.term == 2:
        want.append((tt, "E"))
    cover("ran")
    return ot == want


@harness(instances=lambda tier: [{"N": n, "K": k, "how": h} for n in range(1, (3 if tier == "quick" else 4) + 1) for k in (0, 1, 2)
                                 for h in ("skip", "element_at") if k < n],
         v=I(0, 3, n=lambda i: i["N"]), g=I(0, 2, n=lambda i: i["N"]), tg=I(0, 2), term=I(0, 2), m=I(1, 3), timeout=(120, 900))
def h_group_feedback(a, inst):
    """the duration of a group is derived from the group itself (the group closes with its own (K+1)-th element: the
    'close after n items' idiom), so the duration observer and the consumer sit on the same subject.  Whatever the order in
    which the two are served: no element may be lost or duplicated, per key the groups in opening order carry exactly the
    key's elements in arrival order, every group but the key's last has completed, the source's terminal reaches every group
    that is still open and the outer sequence, and nothing escapes into the source."""
    sch = make_scheduler()
    xs = list(a.v)
    ts = times_from_gaps(a.g)
    tt = (ts[-1] if ts else 210) + a.tg
    src = sch.create_hot_observable(messages(xs, a.g, a.term, a.tg))
    gl = Groups(sch)
    key = lambda x: x % a.m  # noqa: E731
    k = inst["K"]
    if inst["how"] == "skip":
        dur = lambda grp: grp.pipe(ops.skip(k))  # noqa: E731
    else:
        dur = lambda grp: grp.pipe(ops.element_at_or_default(k, None))  # noqa: E731
    try:
        res = sch.start(lambda: src.pipe(ops.group_by_until(key, None, dur), ops.do_action(gl.attach)), disposed=260)
    except Exception:  # noqa: BLE001
        return False  # an exception escaped into the source's notification
    outer = rec_tuples(res.messages)
    per_key = {}
    for grp in gl.groups:
        per_key.setdefault(grp["key"], []).append(grp)
    want_keys = {}
    for x, t in zip(xs, ts):
        want_keys.setdefault(key(x), []).append((t, x))
    if set(per_key) != set(want_keys):
        return False
    for kk, grps in per_key.items():
        got = [it for grp in grps for it in grp["items"]]
        if got != want_keys[kk]:
            return False  # lost, duplicated, misrouted or reordered element
        for grp in grps[:-1]:
            if grp["end"] is None or grp["end"][1] != "C":
                return False  # an earlier group of the key was replaced without having completed
        for grp in grps:
            if len(grp["items"]) > k + 1:
                return False  # the group outlived its duration (it closes with its (K+1)-th element)
        end = grps[-1]["end"]
        if a.term == 0:
            if end is not None and (end[1] != "C" or len(grps[-1]["items"]) != k + 1):
                return False
        elif end is None or end[0] > tt:
            return False  # the source's terminal did not reach an open group
        elif a.term == 1 and end[1] != "C":
            return False
        elif a.term == 2 and not (end == (tt, "E") or (end[1] == "C" and len(grps[-1]["items"]) == k + 1)):
            return False
    ot = [(t, kd) for t, kd, _ in outer]
    opens = sorted(grp["open_t"] for grp in gl.groups)
    want = [(t, "N") for t in opens]
    if a.term == 1:
        want.append((tt, "C"))
    elif a.term == 2:
        want.append((tt, "E"))
    cover("ran")
    return ot == want


@harness(instances=lambda tier: [{"N": n, "idx": i, "ret": r} for n in range(0, (3 if tier == "quick" else 4) + 1) for i in (0, 1)
                                 for r in ("bool", "int", "none") if not (n == 0 and r != "bool")],
         v=I(0, 3, n=lambda i: i["N"]), g=I(0, 2, n=lambda i: i["N"]), tg=I(0, 2), term=I(0, 2), p=I(0, 3), m=I(1, 2), timeout=(90, 900))
def h_partition(a, inst):
    """each element goes to exactly one of the two outputs according to the predicate; both end with the source's terminal"""
    n = inst["N"]
    sch = make_scheduler()
    xs = list(a.v)
    ts = times_from_gaps(a.g)
    tt = (ts[-1] if ts else 210) + a.tg
    src = sch.create_hot_observable(messages(xs, a.g, a.term, a.tg))
    # the predicate answers with a bool, with an int (0 = no), or with None / a value: truthiness decides, as for filter
    ret = inst.get("ret", "bool")
    wrap = {"bool": lambda b: b, "int": lambda b: 1 if b else 0, "none": lambda b: "yes" if b else None}[ret]
    if inst["idx"]:
        pred = lambda x, i: wrap((x + i) % a.m == 0)  # noqa: E731
        yes, no = ops.partition_indexed(pred)(src)
        truth = [bool(pred(x, i)) for i, x in enumerate(xs)]
    else:
        pred = lambda x: wrap(x >= a.p)  # noqa: E731
        yes, no = ops.partition(pred)(src)
        truth = [bool(pred(x)) for x in xs]
    r1, r2 = sch.create_observer(), sch.create_observer()
    sch.schedule_absolute(200, lambda s, st: (yes.subscribe(r1, scheduler=s), no.subscribe(r2, scheduler=s)))
    sch.advance_to(260)
    e1, e2 = rec_tuples(r1.messages), rec_tuples(r2.messages)
    tail = [(tt, "C", None)] if a.term == 1 else [(tt, "E", SRC_ERR)] if a.term == 2 else []
    w1 = [(t, "N", x) for x, t, b in zip(xs, ts, truth) if b] + tail
    w2 = [(t, "N", x) for x, t, b in zip(xs, ts, truth) if not b] + tail
    from engine.lib import same_events
    return same_events(e1, w1) and same_events(e2, w2)


ENCODED = ["reactivex/operators/_groupbyuntil.py", "reactivex/operators/_groupby.py", "reactivex/observable/groupedobservable.py",
           "reactivex/operators/_partition.py"]
BOUNDS = {"quick": "N<=3 elements (N<=2 with expiring groups) with values in [0,3], key x % m (m in 1..3: one to three keys), element mapper 10+x, gaps in [0,3], "
                   "terminal none/completed/error; group durations that fire (by emitting or by completing empty) d in 1..3 ticks after "
                   "the group was emitted, or never; group durations derived from the group itself (grp.skip(K) / grp.element_at_or_default(K), K in 0..2: "
                   "the group closes with its own (K+1)-th element; N<=3, values in [0,3], keys x % m, m in 1..3); partition with predicate x >= p and the indexed form, answering with a bool, an int or None / a value",
          "thorough": "N<=4 (also for group-derived durations)"}
ASSUMES = ["Tick/Span time stub", "an element arriving in the very instant in which its key's group expires still belongs to that group "
           "(the hot element was scheduled before the duration timer)"]
MANIFEST = {
    "text": "Bounded symbolic model checking: values (hence keys), gaps, terminal kind, modulus and expiry delays are solver variables; "
            "every emitted group gets its own recorder and the (key, opening instant, elements with times, termination) of every "
            "group must equal the reference routing.  With durations derived from the group itself (consumer and duration observer on "
            "one subject) the oracle is order-agnostic: no element lost, duplicated or misrouted, replaced groups completed, the "
            "source's terminal reaches every open group and the outer sequence, nothing escapes into the source.",
    "note": "N<=3; <=3 keys; expiry 1..3 ticks.",
}
