"""C18 (threads) — time-or-count / time windows on a real timer thread: no window is closed before its rule says so (GT)."""
import datetime as _dt

import reactivex.operators._windowwithtime as m_wt
import reactivex.operators._windowwithtimeorcount as m_wtc
import reactivex.scheduler.scheduler as m_sched
from reactivex import operators as ops
from reactivex.internal.constants import UTC_ZERO
from reactivex.scheduler import TimeoutScheduler

from engine import gate
from engine.api import I, harness, cover
from harness.C31 import gsleep
from harness.C43 import LOCKMODS, ThreadSource

ONE_S = _dt.timedelta(seconds=1)
TWO_S = _dt.timedelta(seconds=2)
COUNT = 2
OPS = {
    "window_with_time_or_count": lambda sch: ops.window_with_time_or_count(ONE_S, COUNT, scheduler=sch),
    "buffer_with_time_or_count": lambda sch: ops.buffer_with_time_or_count(ONE_S, COUNT, scheduler=sch),
    "window_with_time": lambda sch: ops.window_with_time(ONE_S, scheduler=sch),
    "buffer_with_time": lambda sch: ops.buffer_with_time(ONE_S, scheduler=sch),
    "window_with_time_overlap": lambda sch: ops.window_with_time(TWO_S, ONE_S, scheduler=sch),  # windows of 2 s opened every 1 s
}
# source programs: ("N", v) emit, ("S", seconds) the source thread sleeps, ("C",) complete
PROGS = {
    "ab_c": [("N", "a"), ("N", "b"), ("N", "c"), ("S", 2.5), ("C",)],
    "a_sleep_b": [("N", "a"), ("S", 0.5), ("N", "b"), ("N", "c"), ("N", "d"), ("S", 1.5), ("C",)],
}


def controlled_now():
    return UTC_ZERO + _dt.timedelta(seconds=gate.Clock.t)


def run_once(inst, preempts):
    name = inst["op"]
    with gate.install(m_sched, *LOCKMODS, extra={"default_now": controlled_now}):
        gate.watch(m_wt, m_wtc)
        g = gate.Gate()
        src = ThreadSource()

        class T(TimeoutScheduler):
            pass
        sch = T()
        wins, bad, term = [], [], {}
        seq = [0]
        arrivals = []

        def tick():
            seq[0] += 1
            return seq[0]
        is_buffer = name.startswith("buffer")

        def slow_consumer():
            idx = g.me()
            if idx is not None:
                g.yield_point(idx, "downstream")

        def on_window(w):
            rec = {"open": gate.Clock.t, "items": [], "closed": None, "open_tick": tick(), "close_tick": None}
            wins.append(rec)

            def closed(*_):
                rec["closed"] = gate.Clock.t
                rec["close_tick"] = tick()
            w.subscribe(lambda v: (rec["items"].append(v), slow_consumer()), closed, closed)

        last = [0.0]

        def on_buffer(b):
            wins.append({"open": last[0], "items": list(b), "closed": gate.Clock.t})
            last[0] = gate.Clock.t
            slow_consumer()

        d = src.pipe(OPS[name](sch)).subscribe(on_buffer if is_buffer else on_window, lambda e: None, lambda: None)

        def producer():
            for step in PROGS[inst["prog"]]:
                if step[0] == "N":
                    t0 = tick()
                    src.obs.on_next(step[1])
                    arrivals.append((step[1], t0, tick()))
                elif step[0] == "S":
                    gsleep(step[1])
                else:
                    term["t"] = gate.Clock.t
                    src.obs.on_completed()

        g.spawn(producer)
        r = g.run(preempts, maxsteps=2500)
        d.dispose()
        ok = r in ("done", "deadlock", "maxsteps") and g.done[0] and not g.errors
        sent = [s[1] for s in PROGS[inst["prog"]] if s[0] == "N"]
        got = [v for w in wins for v in w["items"]]
        overlap = "overlap" in name
        if not overlap and got != sent:
            ok = False  # every element in exactly one window, in order
        if not is_buffer:
            # a window that was open during the whole delivery of an element contains it (overlapping windows: each of them)
            for x, t0, t1 in arrivals:
                for w in wins:
                    if w["open_tick"] < t0 and (w["close_tick"] is None or w["close_tick"] > t1) and x not in w["items"]:
                        ok = False
            for w in wins:
                if w["items"] != [x for x in sent if x in w["items"]]:
                    ok = False  # order inside a window
        for w in wins:
            full = "count" in name and len(w["items"]) >= COUNT
            if "count" in name and len(w["items"]) > COUNT:
                ok = False
            if w["closed"] is None:
                continue
            by_source = "t" in term and w["closed"] >= term["t"]
            if not full and not by_source and w["closed"] - w["open"] < (2.0 if overlap else 1.0):
                ok = False  # closed although neither its count was reached nor its timespan had elapsed
        if not ok and __import__("os").environ.get("VERIF_DEBUG"):
            print("DEBUG", r, g.errors, wins, term, file=__import__("sys").stderr)
        return ok, g.steps


def _inst(tier):
    return [{"op": o, "prog": p, "P": 1, "gran": "coarse" if tier == "quick" else "fine"} for o in OPS for p in PROGS]


_BASE = {}


@harness(instances=_inst, p0=I(0, 100000), pos=I(0, 100000, n=lambda i: i["P"] - 1), tgt=I(0, 2, n=lambda i: i["P"]), timeout=(240, 1800), stock=False)
def h_timer_thread(a, inst):
    """the source thread and the TimeoutScheduler's gated timer threads on a controlled clock; a preemption towards a sleeping timer
    thread is the move 'time passes' (the timer comes due while the source is inside the operator)"""
    gate.GRANULARITY = inst.get("gran", "coarse")
    key = (inst["op"], inst["prog"], inst.get("gran"))
    if key not in _BASE:
        with gate.untraced():
            _BASE[key] = run_once(inst, [])
    ok0, L = _BASE[key]
    if not ok0:
        return False
    pre = [a.p0] + list(a.pos)
    if inst["P"] > 1 and pre[1] <= pre[0]:
        return True
    preempts = []
    for i in range(inst["P"]):
        if pre[i] > L + 2:
            return True  # beyond the end of the run
        preempts.append((gate.concrete(pre[i], 0, L + 2), -1 - gate.concrete(a.tgt[i], 0, 2)))
    with gate.untraced():
        ok, _ = run_once(inst, preempts)
    cover("ran")
    return ok
