"""C09 — exceptions raised by user callbacks are delivered as on_error."""
from engine.api import harness, cover, known
from engine.lib import grammar_ok
from harness import pipe
from harness.C02 import released, terminal_time
from harness.catalog import E


def _inst(tier):
    return pipe.instances(tier, 2, 3, nmin=1, tagsel=lambda t: "cb" in t)


@harness(instances=_inst, timeout=(90, 900), **pipe.params(with_k=True))
def h_fault(a, inst):
    if a.k == 0:
        return True
    r = pipe.run(a, inst, k=a.k)
    if not r.ctx.fired:
        return True
    cover("fired")
    if r.escaped is not None:
        return False  # the exception escaped the scheduler run instead of reaching the subscriber
    ev = r.events
    kinds = [k for _, k, _ in ev]
    if not grammar_ok(kinds):
        return False
    errs = [p for _, k, p in ev if k == "E"]
    if len(errs) != 1 or errs[0] is not r.ctx.fault:
        # the pipeline may legitimately have terminated *before* the faulting call could matter only if the
        # callback was invoked after termination -- which C03/C01 forbid; so exactly one on_error(fault) is required
        return False
    return released(r, terminal_time(ev))


ENCODED = ["reactivex/operators/__init__.py", "reactivex/observable/observable.py", "reactivex/observer/autodetachobserver.py"]
BOUNDS = {"quick": "every catalogued operator that takes a user callback, N in 1..2, fault at the k-th user-callback invocation, "
                   "k in [1,N+2]; otherwise as C02", "thorough": "N in 1..3"}
ASSUMES = ["Tick/Span time stub", "the exception is raised by the harness's callbacks at their k-th invocation (all callbacks of the "
           "operator share one counter)", "hot test-observable sources"]
MANIFEST = {
    "text": "Bounded symbolic model checking: for every (operator, callback) of the catalog the position of the raising call and the "
            "timeline are solver variables; the subscriber must receive exactly one on_error carrying the injected exception object, "
            "nothing may escape the scheduler run, and sources must be released.",
    "note": "Depth-1 pipelines; fault position bounded by N+2 calls.",
}
