"""C09 — exceptions raised by user callbacks are delivered as on_error."""
from engine.api import harness, cover, known
from engine.lib import grammar_ok
from harness import pipe
from harness.C02 import released, terminal_time
from harness.catalog import E


def _inst(tier):
    out = pipe.instances(tier, 2, 3, nmin=1, tagsel=lambda t: "cb" in t)
    if tier == "quick":
        # merge(max_concurrent) over two outer elements: the fault position is split over instances to fit the quick budget
        out = [i for i in out if not (i["op"] == "merge_max" and i["N"] == 2)]
        out += [{"op": "merge_max", "N": 2, "k": k, "_timeout": 300} for k in range(1, 5)]
    return out


@harness(instances=_inst, timeout=(150, 900), **pipe.params(with_k=True))
def h_fault(a, inst):
    kk = inst["k"] if "k" in inst else a.k
    if kk == 0:
        return True
    r = pipe.run(a, inst, k=kk)
    if not r.ctx.fired:
        return True
    cover("fired")
    if r.escaped is not None:
        return False  # the exception escaped the scheduler run instead of reaching the subscriber
    ev = r.events
    kinds = [k for _, k, _ in ev]
    if not grammar_ok(kinds):
        return False
    errs = [p for _, k, p in ev if k == "E"]
    if len(errs) != 1 or errs[0] is not r.ctx.fault:
        # the pipeline may legitimately have terminated *before* the faulting call could matter only if the
        # callback was invoked after termination -- which C03/C01 forbid; so exactly one on_error(fault) is required
        return False
    return released(r, terminal_time(ev))


ENCODED = ["reactivex/operators/__init__.py", "reactivex/observable/observable.py", "reactivex/observer/autodetachobserver.py"]
BOUNDS = {"quick": "every catalogued operator that takes a user callback, N in 1..2, fault at the k-th user-callback invocation, "
                   "k in [1,N+2]; otherwise as C02", "thorough": "N in 1..3"}
ASSUMES = ["Tick/Span time stub", "the exception is raised by the harness's callbacks at their k-th invocation (all callbacks of the "
           "operator share one counter)", "hot test-observable sources"]
MANIFEST = {
    "text": "Bounded symbolic model checking: for every (operator, callback) of the catalog the position of the raising call and the "
            "timeline are solver variables; the subscriber must receive exactly one on_error carrying the injected exception object, "
            "nothing may escape the scheduler run, and sources must be released.",
    "note": "Depth-1 pipelines; fault position bounded by N+2 calls.",
}


# ------------------------------------------------------------------ factories raising at subscribe time, nested subscriptions
import reactivex
from reactivex import operators as ops
from reactivex.subject import Subject
from reactivex.scheduler import CurrentThreadScheduler

from engine.api import I
from engine.lib import Injected, Recorder, make_scheduler

F_OPS = {
    "flat_map": lambda f: ops.flat_map(f),
    "concat_map": lambda f: ops.concat_map(f),
    "switch_map": lambda f: ops.switch_map(f),
    "merge_all": lambda f: reactivex.compose(ops.map(f), ops.merge_all()),
    "switch_latest": lambda f: reactivex.compose(ops.map(f), ops.switch_latest()),
    "flat_map_catch": lambda f: reactivex.compose(ops.flat_map(f), ops.catch(reactivex.of(99))),
}


def _finst(tier):
    return [{"op": o, "src": s, "kind": k} for o in F_OPS for s in ("hot", "sync", "subject_in_action") for k in ("defer", "create", "mapper")]


@harness(instances=_finst, k=I(1, 4), timeout=(60, 300), stock=False)
def h_factory(a, inst):
    """the k-th inner observable fails while being subscribed (factory of defer / subscribe function of create / the
    mapper itself); the outer subscriber must get on_error(fault) and nothing may escape into the emitter"""
    fault = Injected("factory")
    n = [0]
    fired = [False]

    def boom():
        fired[0] = True
        raise fault

    def mapper(x):
        n[0] += 1
        me = n[0]
        if inst["kind"] == "mapper":
            if me == a.k:
                boom()
            return reactivex.of(70 + me)
        if inst["kind"] == "defer":
            return reactivex.defer(lambda s: boom() if me == a.k else reactivex.of(70 + me))

        def sub(obs, sch):
            if me == a.k:
                boom()
            obs.on_next(70 + me)
            obs.on_completed()
        return reactivex.create(sub)

    op = F_OPS[inst["op"]](mapper)
    log = []
    escaped = None
    if inst["src"] == "hot":
        sch = make_scheduler()
        from engine.lib import on_next as N, on_completed as C
        src = sch.create_hot_observable(N(210, 1), N(220, 2), N(230, 3), C(240))
        try:
            res = sch.start(lambda: src.pipe(op))
            from engine.lib import rec_tuples
            log = [(k, p) for _, k, p in rec_tuples(res.messages)]
        except Injected as e:
            escaped = e
    elif inst["src"] == "sync":
        try:
            reactivex.from_iterable([1, 2, 3]).pipe(op).subscribe(
                lambda v: log.append(("N", v)), lambda e: log.append(("E", e)), lambda: log.append(("C", None)))
        except Injected as e:
            escaped = e
    else:
        subj = Subject()
        subj.pipe(op).subscribe(lambda v: log.append(("N", v)), lambda e: log.append(("E", e)), lambda: log.append(("C", None)))

        def action(s, st):
            for v in (1, 2, 3):
                subj.on_next(v)
            subj.on_completed()
        try:
            CurrentThreadScheduler.singleton().schedule(action)
        except Injected as e:
            escaped = e
    if not fired[0]:
        return True
    cover("fired")
    if escaped is not None:
        return False
    kinds = [k for k, _ in log]
    if not grammar_ok(kinds):
        return False
    if inst["op"] == "flat_map_catch":
        return kinds[-1:] == ["C"] and ("N", 99) in log and "E" not in kinds
    errs = [p for k, p in log if k == "E"]
    return len(errs) == 1 and errs[0] is fault
