"""C38 — marble diagrams mean what the documented syntax says."""
import reactivex
from reactivex import operators as ops
from reactivex.observable.marbles import parse
from reactivex.observable import marbles as M

from engine.api import I, harness, cover
from engine.lib import make_scheduler, rec_tuples

# documented alphabet as tokens (regex on a symbolic str is inconclusive in CrossHair: the *structure* is solver-enumerated as
# token indices and the string is concrete per path)
TOK = ["-", "|", "#", "a", "b", "1", "12", "(", ")", ",", " ", "1.5"]
LOOKUP = {"a": "A", "b": 0, 1: None, 12: "twelve"}  # includes falsy mapped values
ERR = Exception("marble-error")


def concretize(x, n):
    for c in range(n):
        if x == c:
            return c
    return n - 1


def ref_parse(s, timespan, shift, raise_stopped):
    """independent character-level reference written from the docstring.  Returns ('ok', [(time, kind, value)]) or ('err',)"""
    s = s.replace(" ", "")
    out, i, frame, stopped = [], 0, 0, False

    def emit(t, el):
        nonlocal stopped
        if raise_stopped:
            if stopped:
                raise ValueError("after terminal")
            if el in ("#", "|"):
                stopped = True
        if el == "|":
            out.append((t, "C", None))
        elif el == "#":
            out.append((t, "E", ERR))
        else:
            v = el
            try:
                v = int(el)
            except ValueError:
                try:
                    v = float(el)
                except ValueError:
                    pass
            out.append((t, "N", LOOKUP.get(v, v)))

    try:
        while i < len(s):
            c = s[i]
            t = frame * timespan + shift
            if c == "-":
                frame += 1
                i += 1
            elif c == "(":
                j = s.find(")", i)
                if j < 0:
                    return ("illformed",)
                body = s[i + 1:j]
                parts = body.split(",")
                for el in parts:
                    if raise_stopped and el != "":
                        pass
                for el in parts:
                    if raise_stopped:
                        if stopped:
                            raise ValueError("after terminal")
                        if el in ("#", "|"):
                            stopped = True
                st2 = stopped
                stopped = False if not raise_stopped else stopped
                saved = stopped
                # emission (the stop bookkeeping was done above for the whole group)
                for el in parts:
                    if el != "":
                        if el == "|":
                            out.append((t, "C", None))
                        elif el == "#":
                            out.append((t, "E", ERR))
                        else:
                            v = el
                            try:
                                v = int(el)
                            except ValueError:
                                try:
                                    v = float(el)
                                except ValueError:
                                    pass
                            out.append((t, "N", LOOKUP.get(v, v)))
                stopped = st2
                frame += (j - i + 1)
                i = j + 1
            elif c == ")":
                return ("illformed",)
            elif c == ",":
                raise ValueError("comma outside group")
            elif c in "|#":
                emit(t, c)
                frame += 1
                i += 1
            else:
                j = i
                while j < len(s) and s[j] not in "-|#(),":
                    j += 1
                emit(t, s[i:j])
                frame += (j - i)
                i = j
    except ValueError:
        return ("err",)
    return ("ok", out)


def notes(msgs):
    out = []
    for t, n in msgs:
        if n.kind == "N":
            out.append((t, "N", n.value))
        elif n.kind == "E":
            out.append((t, "E", n.exception))
        else:
            out.append((t, "C", None))
    return out


def _inst(tier):
    if tier == "quick":
        return [{"L": 4, "first": f, "second": -1} for f in range(len(TOK))]
    return [{"L": 6, "first": f, "second": g} for f in range(len(TOK)) for g in range(len(TOK))]


@harness(instances=_inst, tok=I(0, len(TOK) - 1, n=lambda i: i["L"] - (1 if i["second"] < 0 else 2)), ts=I(1, 3), sh=I(0, 2), rs=I(0, 1),
         timeout=(120, 1200), stock=False)
def h_parse(a, inst):
    idx = [inst["first"]] + ([inst["second"]] if inst["second"] >= 0 else []) + [concretize(x, len(TOK)) for x in a.tok]
    s = "".join(TOK[i] for i in idx)
    ref = ref_parse(s, a.ts, a.sh, bool(a.rs))
    try:
        got = ("ok", notes(parse(s, timespan=a.ts, time_shift=a.sh, lookup=LOOKUP, error=ERR, raise_stopped=bool(a.rs))))
    except ValueError:
        got = ("err",)
    if ref[0] == "illformed":
        return True  # unbalanced parentheses are outside the documented alphabet's claim: only "no crash other than ValueError"
    cover("wellformed")
    if ref[0] == "err":
        return got == ("err",)
    if got[0] != "ok" or len(got[1]) != len(ref[1]):
        return False
    for (t1, k1, v1), (t2, k2, v2) in zip(got[1], ref[1]):
        if t1 != t2 or k1 != k2:
            return False
        if k1 == "E":
            if v1 is not v2:
                return False
        elif v1 != v2 or type(v1) is not type(v2):
            return False
    return True


@harness(instances=lambda tier: [{"L": 3 if tier == "quick" else 4, "first": f, "kind": k} for f in range(len(TOK)) for k in ("cold", "hot", "hot_abs")],
         tok=I(0, len(TOK) - 1, n=lambda i: i["L"] - 1), ts=I(1, 2), timeout=(120, 1200))
def h_deliver(a, inst):
    """from_marbles (cold) and hot deliver exactly the parsed notifications at the parsed times on the virtual-time scheduler"""
    idx = [inst["first"]] + [concretize(x, len(TOK)) for x in a.tok]
    s = "".join(TOK[i] for i in idx)
    ts = a.ts
    for c in (1, 2):
        if ts == c:
            ts = c
    ref = ref_parse(s, ts, 0, True)
    if ref[0] != "ok":
        try:
            (reactivex.from_marbles if inst["kind"] == "cold" else reactivex.hot)(s, timespan=ts)
        except ValueError:
            return True
        return ref[0] == "illformed"
    sch = make_scheduler()
    if inst["kind"] == "cold":
        obs = reactivex.from_marbles(s, timespan=ts, lookup=LOOKUP, error=ERR)
        res = sch.start(lambda: obs, disposed=300)
        off = 200
    elif inst["kind"] == "hot_abs":
        # an absolute (datetime) duetime, with the hot observable created when the scheduler's clock is not at zero (inside
        # start()'s create step, clock 100): real datetimes, so the stock TestScheduler is used (all times are concrete here)
        from reactivex.testing import TestScheduler
        sch = TestScheduler()
        res = sch.start(lambda: M.hot(s, timespan=ts, duetime=sch.to_datetime(205), lookup=LOOKUP, error=ERR, scheduler=sch), disposed=300)
        off = 205
    else:
        obs = M.hot(s, timespan=ts, duetime=205, lookup=LOOKUP, error=ERR, scheduler=sch)
        # an earlier observer that unsubscribes from inside its first callback must not disturb the delivery to the others
        sch.schedule_absolute(150, lambda sc, st: obs.pipe(ops.take(1)).subscribe(lambda v: None, lambda e: None, scheduler=sc))
        res = sch.start(lambda: obs, disposed=300)
        off = 205
    got = rec_tuples(res.messages)
    exp = []
    for t, k, v in ref[1]:
        exp.append((off + t, k, v))
        if k != "N":
            break
    cover("delivered")
    if len(got) != len(exp):
        return False
    for (t1, k1, v1), (t2, k2, v2) in zip(got, exp):
        if t1 != t2 or k1 != k2 or (k1 == "N" and v1 != v2) or (k1 == "E" and v1 is not v2):
            return False
    return True


ENCODED = ["reactivex/observable/marbles.py", "reactivex/testing/marbles.py"]
BOUNDS = {"quick": "every string of 4 tokens (3 for the delivery harness) over the documented alphabet "
                   "['-', '|', '#', 'a', 'b', '1', '12', '(', ')', ',', ' ', '1.5'], timespan in [1,3], time shift in [0,2], "
                   "raise_stopped on/off, a fixed lookup map (including falsy mapped values 0 and None); cold (from_marbles) and hot delivery on the virtual-time scheduler (hot: relative duetime with an earlier observer that unsubscribes inside its first callback; absolute datetime duetime created at a non-zero clock)",
          "thorough": "6 tokens (parse), 4 (delivery)"}
ASSUMES = ["the string structure is enumerated by the solver as token indices (a symbolic str through `re` is inconclusive in CrossHair)",
           "ill-formed strings (unbalanced parentheses) are outside the claim: only 'no crash other than ValueError' is required of them",
           "independent character-level reference parser written from the docstring"]
MANIFEST = {
    "text": "Bounded symbolic model checking: the token sequence, timespan, time shift and raise_stopped flag are solver variables; "
            "parse must return exactly the notifications (time, kind, value after number parsing and lookup) of a reference parser "
            "written from the docstring, and from_marbles / hot must deliver them at those virtual times.",
    "note": "<=4 tokens (quick) / 6.",
}
