"""C21 — a BehaviorSubject hands its current value to every new subscriber."""
from reactivex.subject import BehaviorSubject

from engine.api import I, harness
from harness.subjects import NOPS, RefSubject, equal_snap, history_instances, history_ops, hlen, run_history

INITIALS = [None, 0, 7]


def _inst(tier):
    return history_instances(tier, [{"init": k} for k in range(len(INITIALS))] if tier == "quick" else [{"init": 0}, {"init": 1}])


@harness(instances=_inst, h=I(0, NOPS - 1, n=hlen), timeout=(90, 900))
def h_behavior(a, inst):
    ops = history_ops(inst, a.h)
    init = INITIALS[inst["init"]]
    real, ref = run_history(lambda: BehaviorSubject(init), lambda: RefSubject("behavior", init), ops)
    return equal_snap(real, ref)


EXTRA_MODULES = ["harness.C21gt"]  # threads: a subscriber racing the producer (gate threads)
ENCODED = ["reactivex/subject/behaviorsubject.py", "reactivex/subject/subject.py", "reactivex/subject/innersubscription.py",
           "reactivex/observer/autodetachobserver.py", "reactivex/observable/observable.py"]
BOUNDS = {"quick": "every call history of length 4 over the 12-op alphabet of C20, initial value in {None, 0, 7}; threads (GT): a subscriber thread (subscribe, or subscribe and unsubscribe at once) racing a producer thread over 4 sequences, 2 ordered preemptions at instruction-level yield points of the subject modules",
          "thorough": "length 6, initial value in {None, 0}"}
ASSUMES = ["threads: gate-aware RLock shims; the late subscriber must receive one of the sequential outcomes (a prefix of one when it unsubscribes), the early subscriber everything, nothing may raise", "reference subject as in C20 plus: subscribe delivers the current value first; on_next updates it",
           "an in-callback unsubscribe-self issued while the subscription is still being established is a no-op (no handle yet)"]
MANIFEST = {
    "engine": "XH+GT",
    "text": "Bounded symbolic model checking over call histories (as C20) on the real BehaviorSubject against a reference model; "
            "initial values include None and 0 (falsy).",
    "note": "History length 4 / 6; 3 observers.",
}
