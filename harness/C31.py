"""C31 — an event-loop scheduler runs actions serially on one thread, in order (GT: real EventLoopScheduler, gated threads)."""
import datetime as _dt

import reactivex.scheduler.eventloopscheduler as m_els
import reactivex.scheduler.scheduleditem as m_si
import reactivex.disposable.singleassignmentdisposable as m_sad
from reactivex.internal.constants import UTC_ZERO
from reactivex.internal.exceptions import DisposedException
from reactivex.scheduler import EventLoopScheduler

from engine import gate
from engine.api import I, harness, cover


def gsleep(sec):
    """the calling (gated) thread consumes `sec` seconds of the controlled clock"""
    gate.GateEvent().wait(sec)


class World:
    def __init__(self, g, exit_if_empty=False):
        self.g = g
        self.log, self.bad, self.inside = [], [], [0]
        self.clock_at = {}
        self.seq = [0]
        self.threads_started = [0]
        w = self

        class Controlled(EventLoopScheduler):
            @property
            def now(self):
                return UTC_ZERO + _dt.timedelta(seconds=gate.Clock.t)

        def factory(target):
            w.threads_started[0] += 1
            return gate.gated_thread_factory(target)

        self.sch = Controlled(thread_factory=factory, exit_if_empty=exit_if_empty)

    def tick(self):
        self.seq[0] += 1
        return self.seq[0]

    def act(self, name, due=0.0, busy=0.0):
        def action(scheduler, state):
            if self.inside[0]:
                self.bad.append("two actions at once")
            self.inside[0] += 1
            if gate.Clock.t < due:
                self.bad.append("%s started at %s before its due time %s" % (name, gate.Clock.t, due))
            self.log.append((name, self.g.me(), self.tick()))
            self.clock_at[name] = gate.Clock.t
            if busy:
                gsleep(busy)
            else:
                idx = self.g.me()
                if idx is not None:
                    self.g.yield_point(idx, "in-action")
            self.inside[0] -= 1
        return action


def scenario(name, w):
    """returns (list of client thread bodies, check(w) -> bool)"""
    s = w.sch
    R = lambda x: _dt.timedelta(seconds=x)  # noqa: E731
    marks = {}
    if name == "two_immediate":
        return [lambda: (s.schedule(w.act("A")), s.schedule(w.act("B")))], lambda: [n for n, _, _ in w.log] == ["A", "B"]
    if name == "timed_and_immediate":
        def c():
            s.schedule_relative(R(2), w.act("T", 2))
            s.schedule(w.act("I"))
            marks["i_at"] = gate.Clock.t  # a slow client may get I enqueued only after T has come due: then T may run first
        return [c], lambda: sorted(n for n, _, _ in w.log) == ["I", "T"] and (marks["i_at"] >= 2 or [n for n, _, _ in w.log] == ["I", "T"])
    # due-time order is required of actions that were all enqueued before the first of them came due (a slow client -- the move
    # 'time passes' between its two calls -- may enqueue the second one after the first has already run)
    def ordered(names, first_due):
        got = [n for n, _, _ in w.log]
        return sorted(got) == sorted(names) and (marks.get("done_at", 0) >= first_due or got == names)

    if name == "two_timed_same_due":
        def c():
            s.schedule_relative(R(1), w.act("T1", 1))
            s.schedule_relative(R(1), w.act("T2", 1))
            marks["done_at"] = gate.Clock.t
        return [c], lambda: ordered(["T1", "T2"], 1)
    if name == "timed_order":
        def c():
            s.schedule_relative(R(2), w.act("T2", 2))
            s.schedule_relative(R(1), w.act("T1", 1))
            marks["done_at"] = gate.Clock.t
        return [c], lambda: ordered(["T1", "T2"], 1)
    if name == "overdue_timed_before_later_immediate":
        def c():
            s.schedule(w.act("A", busy=2.0))
            s.schedule_relative(R(1), w.act("Q", 1))
            gsleep(1.5)
            s.schedule(w.act("R", 1.5))
        return [c], lambda: [n for n, _, _ in w.log] == ["A", "Q", "R"]
    if name == "cancel_before_start":
        def c():
            d = s.schedule(w.act("A"))
            d.dispose()
            marks["cancelled"] = w.tick()
            marks["cancelled_at"] = gate.Clock.t
        # an action whose cancellation check the loop had already passed may still start in the same instant (a call in flight on
        # another thread is not claimed); it may never start at a later time
        return [c], lambda: all(q < marks["cancelled"] or w.clock_at[n] <= marks["cancelled_at"] for n, _, q in w.log if n == "A")
    if name == "cancel_while_other_runs":
        def c():
            s.schedule(w.act("A", busy=1.0))
            db = s.schedule(w.act("B"))
            gsleep(0.5)
            db.dispose()
            marks["cancelled"] = w.tick()
            marks["cancelled_at"] = gate.Clock.t
        return [c], lambda: all(q < marks["cancelled"] or w.clock_at[n] <= marks["cancelled_at"] for n, _, q in w.log if n == "B") and "A" in [n for n, _, _ in w.log]
    if name == "dispose_then_schedule":
        def c():
            s.schedule(w.act("A"))
            s.dispose()
            marks["disposed"] = w.tick()
            try:
                s.schedule(w.act("B"))
                marks["raised"] = False
            except DisposedException:
                marks["raised"] = True
        return [c], lambda: marks.get("raised") is True and "B" not in [n for n, _, _ in w.log]
    if name == "two_clients":
        return [lambda: s.schedule(w.act("A")), lambda: s.schedule(w.act("B"))], lambda: sorted(n for n, _, _ in w.log) == ["A", "B"]
    if name == "exit_if_empty_restart":
        def c():
            s.schedule(w.act("A"))
            gsleep(1.0)
            s.schedule(w.act("B"))
        return [c], lambda: [n for n, _, _ in w.log] == ["A", "B"]
    raise KeyError(name)


SCEN = ["two_immediate", "timed_and_immediate", "two_timed_same_due", "timed_order", "overdue_timed_before_later_immediate",
        "cancel_before_start", "cancel_while_other_runs", "dispose_then_schedule", "two_clients", "exit_if_empty_restart"]
_BASE = {}


def _inst(tier):
    base = [{"scen": s, "eie": e} for s in SCEN for e in ((0, 1) if s in ("two_immediate", "exit_if_empty_restart", "two_clients") else (0,))]
    if tier == "quick":
        return [dict(i, P=1, lo=0, hi=10 ** 6) for i in base]
    # thorough: 2 ordered preemptions; the first position is chunked over instances
    return [dict(i, P=2, lo=lo, hi=hi) for i in base for lo, hi in gate.position_chunks(320, 16)]


@harness(instances=_inst, p0=I(lambda i: i["lo"], lambda i: min(i["hi"], 400)), pos=I(0, 400, n=lambda i: i["P"] - 1), tgt=I(0, 1, n=lambda i: i["P"]),
         timeout=(240, 900), stock=False)
def h_loop(a, inst):
    gate.GRANULARITY = "coarse"

    def run(preempts):
        with gate.install(m_els, m_si, m_sad):
            gate.watch(m_els)
            g = gate.Gate()
            w = World(g, exit_if_empty=bool(inst["eie"]))
            clients, check = scenario(inst["scen"], w)
            for c in clients:
                g.spawn(c)
            r = g.run(preempts, maxsteps=3000)
            # 'deadlock' = every client finished and the loop thread is parked waiting for work: the normal end state
            ok = r in ("done", "deadlock") and not g.errors and not w.bad and all(g.done[: len(clients)])
            # all actions on one loop thread at a time (a new thread only after exit_if_empty)
            loop_threads = {t for _, t, _ in w.log}
            if not inst["eie"] and len(loop_threads) > 1:
                ok = False
            if ok:
                ok = bool(check())
            if not ok and __import__("os").environ.get("VERIF_DEBUG"):
                print("DEBUG", r, g.errors, w.bad, w.log, g.done, file=__import__("sys").stderr)
            try:
                w.sch.dispose()
            except Exception:
                pass
            g.run([], maxsteps=200)
            return ok, g.steps

    key = (inst["scen"], inst["eie"])
    if key not in _BASE:
        _BASE[key] = run([])
    ok0, L = _BASE[key]
    if not ok0:
        return False
    preempts = gate.pick_schedule(a, inst, L, 2)
    if preempts is None:
        return True
    with gate.untraced():
        ok, _ = run(preempts)
    cover("ran")
    return ok


ENCODED = ["reactivex/scheduler/eventloopscheduler.py", "reactivex/scheduler/scheduleditem.py", "reactivex/internal/priorityqueue.py"]
BOUNDS = {"quick": "10 client scenarios (immediate / timed / equal due times / overdue timed vs later immediate / cancel before start / cancel "
                   "while another action runs / dispose then schedule / two clients / exit_if_empty restart) on the real EventLoopScheduler "
                   "with a gated loop thread, gate-aware Condition/Lock and a controlled clock; 1 preemption at coarse yield points "
                   "(writes, calls, lock and condition operations, inside actions)", "thorough": "2 preemptions"}
ASSUMES = ["thread_factory returns gated workers; threading.Condition/Lock of the scheduler module are gate-aware stubs (Python threading "
           "contract); now is a controlled clock that advances only when every thread is blocked (or by the explicit 'time passes' move)",
           "the all-interleavings abstract model (BMC) of the run loop is not claimed: DESIGN §5"]
MANIFEST = {
    "engine": "GT",
    "text": "Gate-serialised real threads drive the real EventLoopScheduler run loop; the preemption schedule is a solver variable "
            "under CrossHair: serial execution on the loop thread, submission order, due-time order and not-before-due on the "
            "controlled clock, cancellation before start, DisposedException after dispose(), restart after exit_if_empty and absence "
            "of lost wake-ups are decided for every schedule with at most P preemptions.",
    "note": "1-2 client threads + loop thread; P<=1 (quick) / 2.",
}
