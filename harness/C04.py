"""C04 — cold observables can be subscribed again with identical results."""
import reactivex
from reactivex import operators as ops

from engine.api import I, harness, cover, known
from engine.lib import make_scheduler, rec_tuples, same_events, on_next, on_completed, on_error, Injected
from harness import pipe
from harness.catalog import E


PERIODIC = {"sample", "buffer_with_time", "window_with_time", "buffer_with_time_or_count", "window_with_time_or_count", "average"}


def _inst(tier):
    out = pipe.instances(tier, 2, 3, nmin=1, lean=True, tagsel=lambda t: "multi" not in t and "nocold" not in t)
    if tier == "quick":  # periodic timers x two subscriptions, and float averages: thorough tier only
        out = [i for i in out if i["op"] not in PERIODIC]
    return out


def shifted(events, s):
    return [(t - s, k, p) for t, k, p in events]


def deep_same(a, b):
    return same_events(a, b)


@harness(instances=_inst, timeout=(90, 900), s2=I(0, 4), **pipe.params(gmax=1))
def h_resubscribe(a, inst):
    """two subscriptions to the SAME observable object at 200 and 200+s2 (overlapping or sequential): identical records modulo the shift"""
    sch = make_scheduler()
    ctx, main, srcs = pipe.build(a, inst, sch, hot=False)
    obs = main.pipe(E[inst["op"]]["build"](ctx))
    o1, o2 = sch.create_observer(), sch.create_observer()
    sch.schedule_absolute(200, lambda s, st: obs.subscribe(o1, scheduler=s))
    sch.schedule_absolute(200 + a.s2, lambda s, st: obs.subscribe(o2, scheduler=s))
    sch.advance_to(228)
    e1 = shifted(rec_tuples(o1.messages), 200)
    e2 = shifted(rec_tuples(o2.messages), 200 + a.s2)
    # compare up to the common horizon
    lim = 20
    e1 = [e for e in e1 if e[0] <= lim]
    e2 = [e for e in e2 if e[0] <= lim]
    if inst["op"] in ("timestamp",):
        return len(e1) == len(e2)
    cover("both")
    return same_events(e1, e2)


# ------------------------------------------------------------------ the second subscription sees *different* data
def _vinst(tier):
    out = pipe.instances(tier, 2, 3, nmin=1, lean=True, tagsel=lambda t: "multi" not in t and "nocold" not in t)
    if tier == "quick":  # periodic timers x three subscriptions: thorough tier only (average stays: its state leak needs differing data)
        out = [i for i in out if i["op"] not in PERIODIC or i["op"] == "average"]
        # queued inner sources need two outer elements
        out += [{"op": o, "N": 2, "d": d} for o in ("merge_max", "concat_map") for d in (0, 1, 2, 5)]  # dispose instant split over instances
    return out


@harness(instances=_vinst, timeout=(240, 900), d=I(0, 5), bt=I(1, 2), **pipe.params(gmax=1))
def h_varying(a, inst):
    """the same observable object over a deferred source that yields timeline A (symbolic) to the first subscription and a shorter
    timeline B to the second; the first subscription runs to its end (completion or error) or is disposed after d ticks.  The
    second subscription must behave exactly like a freshly built pipeline over B: nothing of the first run may leak into it"""
    from harness.catalog import element
    sch = make_scheduler()
    ctx, main_a, srcs = pipe.build(a, inst, sch, hot=False)
    kind = E[inst["op"]].get("elem")
    b_msgs = [on_next(2, element(kind, 1)), on_completed(3) if a.bt == 1 else on_error(3, Injected("b"))]
    main_b, main_b2 = sch.create_cold_observable(b_msgs), sch.create_cold_observable(b_msgs)
    def factory(scheduler):
        return main_a if sch.clock < 215 else main_b  # whoever subscribes the source before 215 gets A, later B

    shared = reactivex.defer(factory).pipe(E[inst["op"]]["build"](ctx))
    fresh = main_b2.pipe(E[inst["op"]]["build"](ctx))
    o1, o2, o3 = sch.create_observer(), sch.create_observer(), sch.create_observer()
    h = [None]
    sch.schedule_absolute(200, lambda s, st: h.__setitem__(0, shared.subscribe(o1, scheduler=s)))
    d = inst["d"] if "d" in inst else a.d
    if d < 5:
        sch.schedule_absolute(201 + d, lambda s, st: h[0].dispose())
    sch.schedule_absolute(220, lambda s, st: shared.subscribe(o2, scheduler=s))
    sch.schedule_absolute(220, lambda s, st: fresh.subscribe(o3, scheduler=s))
    sch.advance_to(250)
    if inst["op"] in ("timestamp",):
        return len(o2.messages) == len(o3.messages)
    cover("both")
    return same_events(rec_tuples(o2.messages), rec_tuples(o3.messages))


# ------------------------------------------------------------------ operators given an *absolute* time, subscribed at two instants
ABS_OPS = {
    "delay": lambda t: ops.delay(t),
    "delay_subscription": lambda t: ops.delay_subscription(t),
    "skip_until_with_time": lambda t: ops.skip_until_with_time(t),
    "take_until_with_time": lambda t: ops.take_until_with_time(t),
    "timeout": lambda t: ops.timeout(t),
}


@harness(instances=lambda tier: [{"op": o} for o in ABS_OPS], d=I(0, 14), s2=I(1, 12), g=I(0, 2), timeout=(120, 600), stock=False)
def h_absolute(a, inst):
    """an operator built once with an absolute (datetime) time D and subscribed at 200 and again at 200 + s2, next to a freshly
    built operator subscribed at the same second instant: the reused one must behave exactly like the fresh one (an absolute time
    is resolved against each subscription's own clock reading, never against the first one's).  Real datetimes: stock TestScheduler,
    all numbers realised by branching"""
    from engine.gate import concrete, untraced
    d, s2, g = concrete(a.d, 0, 14), concrete(a.s2, 1, 12), concrete(a.g, 0, 2)
    with untraced():  # everything below is concrete: no symbolic tracing needed
        ok = _absolute_run(inst["op"], d, s2, g)
    cover("both")
    return ok


def _absolute_run(op, d, s2, g):
    from reactivex.testing import ReactiveTest, TestScheduler
    inst = {"op": op}
    sch = TestScheduler()
    D = sch.to_datetime(205 + d)
    msgs = [ReactiveTest.on_next(1 + g, 1), ReactiveTest.on_next(4 + g, 2), ReactiveTest.on_completed(8 + g)]
    shared = sch.create_cold_observable(msgs).pipe(ABS_OPS[inst["op"]](D))
    fresh = sch.create_cold_observable(msgs).pipe(ABS_OPS[inst["op"]](D))
    o1, o2, o3 = sch.create_observer(), sch.create_observer(), sch.create_observer()
    sch.schedule_absolute(200, lambda s, st: shared.subscribe(o1, scheduler=s))
    sch.schedule_absolute(200 + s2, lambda s, st: shared.subscribe(o2, scheduler=s))
    sch.schedule_absolute(200 + s2, lambda s, st: fresh.subscribe(o3, scheduler=s))
    sch.advance_to(300)
    return same_events(rec_tuples(o2.messages), rec_tuples(o3.messages))


# ------------------------------------------------------------------ creation functions that combine / build sources
def _cinst(tier):
    return [{"fn": f} for f in CREATORS]


def _cold(sch, a, base=0):
    m1 = [on_next(1 + a.g[0], a.v[0]), on_next(2 + a.g[0], a.v[1])]
    m1.append(on_completed(3 + a.g[0]) if a.term == 1 else on_error(3 + a.g[0], Injected("e1")))
    m2 = [on_next(1, 50), on_completed(2 + a.g[1])]
    x, y = sch.create_cold_observable(m1), sch.create_cold_observable(m2)
    # a slow outer sequence and a short inner one: the first inner has ended before the second outer element arrives
    ms = [on_next(1, a.v[0]), on_next(4 + a.g[0], a.v[1])]
    ms.append(on_completed(6 + a.g[0] + a.g[1]) if a.term == 1 else on_error(6 + a.g[0] + a.g[1], Injected("e1")))
    x.slow = sch.create_cold_observable(ms)
    y.short = sch.create_cold_observable([on_next(1, 60), on_completed(2)])
    return x, y


CREATORS = {
    "concat": lambda x, y, a: reactivex.concat(x, y),
    "concat_with_iterable": lambda x, y, a: reactivex.concat_with_iterable([x, y]),
    "catch": lambda x, y, a: reactivex.catch(x, y),
    "catch_with_iterable": lambda x, y, a: reactivex.catch_with_iterable([x, y]),
    "on_error_resume_next": lambda x, y, a: reactivex.on_error_resume_next(x, y),
    "merge": lambda x, y, a: reactivex.merge(x, y),
    "zip": lambda x, y, a: reactivex.zip(x, y),
    "combine_latest": lambda x, y, a: reactivex.combine_latest(x, y),
    "fork_join": lambda x, y, a: reactivex.fork_join(x, y),
    "amb": lambda x, y, a: reactivex.amb(x, y),
    "with_latest_from": lambda x, y, a: reactivex.with_latest_from(x, y),
    "defer": lambda x, y, a: reactivex.defer(lambda s: x),
    "case": lambda x, y, a: reactivex.case(lambda: 1, {1: x}, y),
    "if_then": lambda x, y, a: reactivex.if_then(lambda: True, x, y),
    "using": lambda x, y, a: reactivex.using(lambda: reactivex.disposable.Disposable(), lambda r: x),
    "op_catch": lambda x, y, a: x.pipe(ops.catch(y)),
    "op_on_error_resume_next": lambda x, y, a: x.pipe(ops.on_error_resume_next(y)),
    "op_zip_with_iterable": lambda x, y, a: x.pipe(ops.zip_with_iterable([7, 8, 9])),
    "op_zip_with_list": lambda x, y, a: x.pipe(ops.zip_with_list([7, 8, 9])),
    "op_retry": lambda x, y, a: x.pipe(ops.retry(2)),
    "op_repeat": lambda x, y, a: x.pipe(ops.repeat(2)),
    "op_repeat_repeat": lambda x, y, a: x.pipe(ops.repeat(2), ops.repeat(2)),
    "op_concat": lambda x, y, a: x.pipe(ops.concat(y)),
    # two outer elements, each mapped to the short inner sequence y (an inner can end while the outer still has an element to come)
    "op_merge_all": lambda x, y, a: x.pipe(ops.map(lambda v: y), ops.merge_all()),
    "op_flat_map": lambda x, y, a: x.pipe(ops.flat_map(lambda v: y)),
    "op_concat_map": lambda x, y, a: x.pipe(ops.concat_map(lambda v: y)),
    "op_merge_max1": lambda x, y, a: x.pipe(ops.map(lambda v: y), ops.merge(max_concurrent=1)),
    "op_switch_latest": lambda x, y, a: x.pipe(ops.map(lambda v: y), ops.switch_latest()),
    "op_flat_map_latest": lambda x, y, a: x.pipe(ops.flat_map_latest(lambda v: y)),
    "op_merge_all_gap": lambda x, y, a: x.slow.pipe(ops.map(lambda v: y.short), ops.merge_all()),
    "op_flat_map_gap": lambda x, y, a: x.slow.pipe(ops.flat_map(lambda v: y.short)),
    "op_concat_map_gap": lambda x, y, a: x.slow.pipe(ops.concat_map(lambda v: y.short)),
    "op_switch_latest_gap": lambda x, y, a: x.slow.pipe(ops.map(lambda v: y.short), ops.switch_latest()),
    "op_start_with": lambda x, y, a: x.pipe(ops.start_with(1, 2)),
    "from_iterable": lambda x, y, a: reactivex.from_iterable([1, 2, 3]),
    "of": lambda x, y, a: reactivex.of(1, 2, 3),
    "range": lambda x, y, a: reactivex.range(0, 3),
    "generate": lambda x, y, a: reactivex.generate(0, lambda v: v < 3, lambda v: v + 1),
    "repeat_value": lambda x, y, a: reactivex.repeat_value(7, 2),
    "return_value": lambda x, y, a: reactivex.return_value(7),
    "timer": lambda x, y, a: reactivex.timer(2),
    "generate_with_relative_time": lambda x, y, a: reactivex.generate_with_relative_time(0, lambda v: v < 3, lambda v: v + 1, lambda v: 1 + a.g[0]),
    "timer_periodic": lambda x, y, a: reactivex.timer(1, 2).pipe(ops.take(3)),
    "interval": lambda x, y, a: reactivex.interval(2).pipe(ops.take(2)),
    "for_in": lambda x, y, a: reactivex.for_in([0, 1], lambda i: (x, y)[i]),
}
KNOWN_REGION = {}


@harness(instances=_cinst, timeout=(60, 600), v=I(0, 2, n=2), g=I(0, 2, n=2), term=I(1, 2), s2=I(0, 12), third=I(0, 1))
def h_creators(a, inst):
    """creation functions and source-combining operators: the same observable object subscribed two (or three) times"""
    sch = make_scheduler()
    x, y = _cold(sch, a)
    obs = CREATORS[inst["fn"]](x, y, a)
    recs = [sch.create_observer(), sch.create_observer(), sch.create_observer()]
    starts = [200, 200 + a.s2, 230]
    n = 3 if a.third else 2
    for i in range(n):
        sch.schedule_absolute(starts[i], (lambda o: lambda s, st: obs.subscribe(o, scheduler=s))(recs[i]))
    sch.advance_to(270)
    lim = 25
    evs = [[e for e in shifted(rec_tuples(recs[i].messages), starts[i]) if e[0] <= lim] for i in range(n)]
    cover("both")
    for i in range(1, n):
        if not same_events(evs[0], evs[i]):
            return False
    return True


ENCODED = ["reactivex/observable/catch.py", "reactivex/observable/onerrorresumenext.py", "reactivex/observable/concat.py",
           "reactivex/operators/_zip.py", "reactivex/operators/_retry.py", "reactivex/operators/_repeat.py",
           "reactivex/observable/fromiterable.py", "reactivex/observable/range.py", "reactivex/observable/generate.py",
           "reactivex/observable/defer.py", "reactivex/observable/case.py", "reactivex/observable/ifthen.py",
           "reactivex/observable/using.py", "reactivex/operators/__init__.py"]
BOUNDS = {"quick": "every catalogued cold-safe operator (depth 1) over cold test sources, N in 1..2, gaps in [0,1], second subscription s2 in [0,4] "
                   "ticks after the first (overlapping and sequential); 32 creation functions / source combinators over two cold "
                   "sources with two or three subscriptions, s2 in [0,12]", "thorough": "N in 1..3"}
ASSUMES = ["Tick/Span time stub", "callbacks are pure and argument collections are lists (re-iterable), as the statement requires",
           "excluded by the statement: publish/share/replay/ref_count/subjects, one-shot iterators; operators whose harness callbacks "
           "are stateful by construction (while_do, do_while, window_when, buffer_when) are not compared",
           "records compared up to a common horizon of 20 ticks after each subscription; periodic-timer operators and average in the thorough tier only"]
MANIFEST = {
    "text": "Bounded symbolic model checking: the same observable object is subscribed twice (three times for the creation "
            "functions) at solver-chosen offsets over cold sources with symbolic timelines; the records, shifted by the "
            "subscription time, must be equal.",
    "note": "Depth-1 pipelines + creation functions; bounds in evidence.",
}
