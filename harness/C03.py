"""C03 — unsubscribing silences the subscriber and frees its sources."""
from reactivex.disposable import SerialDisposable

from engine.api import I, harness, cover, known
from engine.lib import Recorder, make_scheduler
from harness import pipe
from harness.catalog import E

# operators recorded in known_findings.json: they invoke a user callback after forwarding the element downstream, so a
# subscriber that disposes inside that on_next still sees the callback run once on its behalf
LATE_CALLBACK = {"expand": "C03-expand-late-mapper", "timeout_with_mapper": "C03-timeoutwithmapper-late-mapper",
                 "buffer_when": "C03-bufferwhen-late-closing"}
QUICK_SKIP_AT = {"join", "group_join", "buffer_toggle", "window_toggle"}  # three symbolic sources x dispose instant: thorough only

# shared sources (publish/share/replay) legitimately stay subscribed for other subscribers only when there are any; with a
# single subscriber ref_count disconnects, so they are included


@harness(instances=lambda tier: [i for i in pipe.instances(tier, 1, 3, nmin=1, lean=True) if tier != "quick" or i["op"] not in QUICK_SKIP_AT],
         timeout=(120, 900), D=I(200, 216), **pipe.params())
def h_dispose_at(a, inst):
    """dispose scheduled at virtual time D (covers before the first element, between notifications, same instant)"""
    r = pipe.run(a, inst, disposed=a.D)
    for t, k, _ in r.events:
        if t > a.D:
            return False
    for name, s, u in pipe.subs_log(r):
        if u > a.D:
            return False
    for t in r.ctx.cb_times:
        if t > a.D:
            return False
    cover("disposed")
    return True


@harness(instances=lambda tier: pipe.instances(tier, 2, 3, nmin=1, lean=True), timeout=(90, 900), j=I(1, 2), **pipe.params())
def h_dispose_in_callback(a, inst):
    """dispose() called synchronously from inside the subscriber's j-th on_next: decides every order inside one instant"""
    sch = make_scheduler()
    ctx, main, srcs = pipe.build(a, inst, sch)
    op = E[inst["op"]]["build"](ctx)
    sub = SerialDisposable()
    st = {"n": 0, "after": 0, "disposed_at": None, "cb_mark": None}
    st["late_same_tick"] = lambda q: ctx.cb_times[ctx.cb_log.index(q)] == st["disposed_at"]

    def on_next(v):
        if st["disposed_at"] is not None:
            st["after"] += 1
            return
        st["n"] += 1
        if st["n"] == a.j:
            sub.dispose()
            st["disposed_at"] = sch.clock
            st["cb_mark"] = ctx.seq[0]

    def on_term(*_):
        if st["disposed_at"] is not None:
            st["after"] += 1

    def subscribe(s, state):
        sub.disposable = main.pipe(op).subscribe(on_next, on_term, on_term, scheduler=sch)

    sch.schedule_absolute(200, subscribe)
    sch.schedule_absolute(pipe.HORIZON, lambda s, st_: sub.dispose())
    sch.start()
    if st["disposed_at"] is None:
        return True
    cover("disposed")
    if st["after"]:
        return False
    D = st["disposed_at"]
    for name, s in srcs:
        for x in s.subscriptions:
            if x.unsubscribe > D:
                return False
    # no user callback of the pipeline ran after dispose() returned (sequence numbers, not times)
    late = [q for q in ctx.cb_log if q > st["cb_mark"]]
    if late:
        fid = LATE_CALLBACK.get(inst["op"])
        if fid and known(fid, True):
            # recorded finding: the operator calls its user callback right after forwarding the element, in the same
            # synchronous notification; anything later than that notification is still a violation
            return len(late) == 1 and st["late_same_tick"](late[0])
        return False
    return True


# ------------------------------------------------------------------ synchronous sources on the default (trampoline) scheduler
import reactivex
from reactivex import operators as ops


def _sync_sources(log, n):
    """name -> factory of a synchronous source whose user code (generator body / supplier / loop callbacks) logs every run"""
    def gen():
        for i in range(n):
            log.append(("pull", i))
            yield i

    def supplier():
        log.append(("supplier",))
        return 7

    return {
        "iter": lambda: reactivex.from_iterable(gen()),
        "callable": lambda: reactivex.from_callable(supplier),
        "generate": lambda: reactivex.generate(0, lambda x: (log.append(("cond", x)), x < n)[1], lambda x: (log.append(("iter", x)), x + 1)[1]),
        "range_map": lambda: reactivex.range(0, n).pipe(ops.map(lambda x: (log.append(("map", x)), x)[1])),
        "repeat_value_map": lambda: reactivex.repeat_value(1, n).pipe(ops.map(lambda x: (log.append(("map", x)), x)[1])),
    }


SHAPES = {
    "direct": lambda s, o: s(),
    "map": lambda s, o: s().pipe(ops.map(lambda x: x)),
    "merge_after_of": lambda s, o: reactivex.merge(reactivex.of(1, 2, 3), s()),
    "merge_before_of": lambda s, o: reactivex.merge(s(), reactivex.of(1, 2, 3)),
    "concat_after_of": lambda s, o: reactivex.concat(reactivex.of(1, 2), s()),
    "zip_of": lambda s, o: reactivex.zip(reactivex.of(1, 2, 3), s()),
    "flat_map": lambda s, o: reactivex.of(1, 2).pipe(ops.flat_map(lambda _: s())),
    "start_with": lambda s, o: s().pipe(ops.start_with(0)),
    "share": lambda s, o: s().pipe(ops.share()),
}


def _sinst(tier):
    return [{"src": k, "shape": sh, "stop": st} for k in ("iter", "callable", "generate", "range_map", "repeat_value_map")
            for sh in SHAPES for st in ("dispose", "take")]


@harness(instances=_sinst, j=I(1, 3), n=I(1, 4), timeout=(60, 300), stock=False)
def h_sync(a, inst):
    """synchronous sources on the current-thread trampoline: after the subscriber disposed inside its j-th on_next (or take(j)
    completed), no user code of any source may run any more"""
    log = []
    n = a.n
    for c in range(1, 5):  # the element count drives concrete loops
        if n == c:
            n = c
    srcs = _sync_sources(log, n)
    obs = SHAPES[inst["shape"]](srcs[inst["src"]], None)
    st = {"n": 0, "mark": None, "after": 0}
    sub = SerialDisposable()

    def on_next(v):
        if st["mark"] is not None:
            st["after"] += 1
            return
        st["n"] += 1
        if st["n"] == a.j:
            if inst["stop"] == "dispose":
                sub.dispose()
            st["mark"] = len(log)

    def on_term(*_):
        pass

    if inst["stop"] == "take":
        obs = obs.pipe(ops.take(a.j))
    # subscribe from inside a running trampoline action: subscribe() then returns the handle before anything is emitted,
    # so that the subscriber really holds a subscription it can dispose from its own on_next
    from reactivex.scheduler import CurrentThreadScheduler

    def action(s, state):
        sub.disposable = obs.subscribe(on_next, on_term, on_term)

    CurrentThreadScheduler.singleton().schedule(action)
    if st["mark"] is None:
        return True
    cover("stopped")
    if st["after"]:
        return False
    return len(log) == st["mark"]


ENCODED = ["reactivex/observable/observable.py", "reactivex/observer/autodetachobserver.py",
           "reactivex/disposable/serialdisposable.py", "reactivex/disposable/singleassignmentdisposable.py",
           "reactivex/disposable/compositedisposable.py", "reactivex/scheduler/scheduleditem.py", "reactivex/operators/__init__.py", "reactivex/scheduler/trampoline.py",
           "reactivex/scheduler/currentthreadscheduler.py", "reactivex/observable/fromiterable.py", "reactivex/observable/generate.py"]
BOUNDS = {"quick": "every catalogued operator (depth 1), N in 1..2 (1 for operators with extra or inner sources), dispose instant D in [200,216] with N = 1 (so before the first element, "
                   "between, and in the same tick as notifications and timers), and the in-callback form: dispose from inside the "
                   "subscriber's j-th on_next, j in 1..2; synchronous sources (from_iterable over a generator, from_callable, generate, range, "
                   "repeat_value) in 9 shapes on the default trampoline scheduler, stopped by dispose-in-callback or take(j), j in 1..3", "thorough": "N in 1..3"}
ASSUMES = ["Tick/Span time stub", "single thread / virtual time only (as the statement says)",
           "notifications stamped with the very tick of a scheduled dispose are not ordered against it (time-based form); the "
           "in-callback form orders everything by sequence number"]
MANIFEST = {
    "text": "Bounded symbolic model checking: timelines, parameters and the dispose instant (or the in-callback dispose position) are "
            "solver variables; after dispose() no recorder call, no user-callback invocation and no open test-source subscription "
            "may remain; all paths exhausted per (operator, N).",
    "note": "Depth-1 pipelines; D within 19 ticks of subscription.",
}
