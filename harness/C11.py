"""C11 — merging keeps each inner order and completes when all complete."""
import reactivex
from reactivex import operators as ops

from engine.api import I, harness, cover
from engine.lib import Injected, make_scheduler, on_completed, on_error, on_next, rec_tuples

OUT_ERR = Injected("outer")
IN_ERRS = [Injected("i0"), Injected("i1"), Injected("i2")]


class _Sub:
    def __init__(self, subscribe, unsubscribe):
        self.subscribe, self.unsubscribe = subscribe, unsubscribe


class SyncInner(reactivex.Observable):
    """an inner source that emits its elements and terminates synchronously inside subscribe() (like an already completed
    subject or a create() source); keeps a subscription log like the test observables"""

    def __init__(self, sch, values, term, err):
        self.subscriptions = []

        def subscribe(observer, scheduler=None):
            rec = _Sub(sch.clock, 10 ** 9)
            self.subscriptions.append(rec)
            for v in values:
                observer.on_next(v)
            if term == 1:
                observer.on_completed()
            elif term == 2:
                observer.on_error(err)

            def dispose():
                if rec.unsubscribe == 10 ** 9:
                    rec.unsubscribe = sch.clock
            from reactivex.disposable import Disposable
            return Disposable(dispose)
        super().__init__(subscribe)


def build(sch, a, K, n, sync=None):
    """outer hot source with K elements (element j at 205 + cumulative gaps) then outer terminal (0 none / 1 completed / 2 error);
    inner j: cold, n elements at cumulative gaps (first at ig >= 0 after its subscription: 0 = synchronously in the instant
    of subscription), then terminal iterm[j] (0 never / 1 completed / 2 error) one tick + itg after the last element.
    Returns (outer, [inner observables], outer element times, outer terminal time, inner descriptions)"""
    T, t = [], 205
    for j in range(K):
        t = t + a.og[j]
        T.append(t)
    Tt = (T[-1] if T else 205) + a.otg
    msgs = [on_next(T[j], j) for j in range(K)]
    if a.oterm == 1:
        msgs.append(on_completed(Tt))
    elif a.oterm == 2:
        msgs.append(on_error(Tt, OUT_ERR))
    outer = sch.create_hot_observable(msgs)
    inners, desc = [], []
    gi = 0
    for j in range(K):
        r, ev = 0, []
        for i in range(n):
            r = r + a.ig[gi]
            gi += 1
            ev.append((r, 10 * (j + 1) + i))
        rt = r + a.itg[j]
        m = [on_next(r_, v) for r_, v in ev]
        if a.iterm[j] == 1:
            m.append(on_completed(rt))
        elif a.iterm[j] == 2:
            m.append(on_error(rt, IN_ERRS[j]))
        if sync and sync[j]:
            inners.append(SyncInner(sch, [v for _, v in ev], a.iterm[j], IN_ERRS[j]))
            desc.append(([(0, v) for _, v in ev], a.iterm[j], 0, IN_ERRS[j]))
        else:
            inners.append(sch.create_cold_observable(m))
            desc.append((ev, a.iterm[j], rt, IN_ERRS[j]))
    return outer, inners, T, Tt, desc


def ref_merge(T, Tt, oterm, desc, maxc):
    """event-driven reference: returns (expected output events sorted by time, expected inner subscription intervals).
    maxc None = unlimited.  Inner j occupies a slot from its subscription until it completes."""
    K = len(T)
    INF = 10 ** 9
    # timeline of primitive events: (time, order, kind, j, payload)
    out = []
    subs = [None] * K  # (start, end)
    queue = []
    active = []
    # discrete event simulation over candidate instants
    pending_outer = [(T[j], j) for j in range(K)]
    outer_done_at = Tt if oterm == 1 else None
    outer_err_at = Tt if oterm == 2 else None
    started = {}

    def inner_events(j, start):
        ev, term, rt, err = desc[j]
        res = [(start + r, "N", v) for r, v in ev]
        if term == 1:
            res.append((start + rt, "C", None))
        elif term == 2:
            res.append((start + rt, "E", err))
        return res

    # we compute start times iteratively: unlimited -> start = T[j]; limited -> when a slot frees
    starts = {}
    ends = {}
    if maxc is None:
        for j in range(K):
            starts[j] = T[j]
    else:
        running = []  # (end_time, j)
        waiting = []
        for j in range(K):
            tj = T[j]
            # free the slots of inners completed up to tj (strictly before or at tj: completion at tj was delivered
            # after the outer element only if it was scheduled later; cold inner notifications are scheduled at subscription,
            # i.e. after the hot outer's messages, so the outer element comes first)
            running = [(e, k) for e, k in running]
            # start queued ones as slots free before tj
            changed = True
            while changed:
                changed = False
                fin = sorted([(e, k) for e, k in running if e is not None and e < tj])
                if fin and waiting:
                    e, k = fin[0]
                    running.remove((e, k))
                    w = waiting.pop(0)
                    starts[w] = e
                    ev, term, rt, err = desc[w]
                    running.append(((e + rt) if term == 1 else None, w))
                    changed = True
                elif fin:
                    for x in fin:
                        running.remove(x)
                    changed = True
            if len(running) < maxc:
                starts[j] = tj
                ev, term, rt, err = desc[j]
                running.append(((tj + rt) if term == 1 else None, j))
            else:
                waiting.append(j)
        # drain the queue after the last outer element
        while waiting:
            fin = sorted([(e, k) for e, k in running if e is not None])
            if not fin:
                break
            e, k = fin[0]
            running.remove((e, k))
            w = waiting.pop(0)
            starts[w] = e
            ev, term, rt, err = desc[w]
            running.append(((e + rt) if term == 1 else None, w))
    allev = []
    for j, s in starts.items():
        for (t, k, p) in inner_events(j, s):
            allev.append((t, k, p, j))
    # termination: first error (outer or inner), else completion when outer completed and every started/queued inner completed
    err_times = [(t, p) for (t, k, p, j) in allev if k == "E"]
    if outer_err_at is not None:
        err_times.append((outer_err_at, OUT_ERR))
    t_err = min([t for t, _ in err_times]) if err_times else None
    t_done = None
    if oterm == 1 and len(starts) == K and all(desc[j][1] == 1 for j in range(K)):
        t_done = max([Tt] + [starts[j] + desc[j][2] for j in range(K)])
    t_end = INF
    kind_end = None
    if t_err is not None:
        t_end, kind_end = t_err, "E"
    if t_done is not None and (t_err is None or t_done < t_err):
        t_end, kind_end = t_done, "C"
    return allev, starts, t_end, kind_end, err_times


MERGES = {
    "merge_all": (lambda f: reactivex.compose(ops.map(f), ops.merge_all()), None),
    "flat_map": (lambda f: ops.flat_map(f), None),
    "flat_map_indexed": (lambda f: ops.flat_map_indexed(lambda x, i: f(x)), None),
    "merge_max1": (lambda f: reactivex.compose(ops.map(f), ops.merge(max_concurrent=1)), 1),
    "merge_max2": (lambda f: reactivex.compose(ops.map(f), ops.merge(max_concurrent=2)), 2),
    "concat_map": (lambda f: ops.concat_map(f), 1),
}


def _inst(tier):
    import itertools
    out = []
    for name in MERGES:
        shapes = ((1, 1), (2, 1)) if tier == "quick" else ((1, 1), (2, 1), (2, 2), (3, 1))
        for K, n in shapes:
            # split on the terminal kinds of the outer and of every inner (the discrete part of the timeline)
            for ot in (0, 1, 2):
                for it in itertools.product((0, 1, 2), repeat=K):
                    out.append({"op": name, "K": K, "n": n, "ot": ot, "it": list(it), "sync": None})
        # inners that emit and terminate synchronously inside subscribe()
        for ot in (0, 1):
            for it in ((1, 1), (1, 2), (2, 1), (1, 0)):
                for sy in ((1, 0), (0, 1), (1, 1)):
                    out.append({"op": name, "K": 2, "n": 1, "ot": ot, "it": list(it), "sync": list(sy)})
    return out


@harness(instances=_inst, og=I(0, 2, n=lambda i: i["K"]), otg=I(0, 4), ig=I(0, 2, n=lambda i: i["K"] * i["n"]),
         itg=I(0, 1, n=lambda i: i["K"]), timeout=(120, 900))
def h_merge(a, inst):
    a.oterm, a.iterm = inst["ot"], inst["it"]
    sch = make_scheduler()
    K, n = inst["K"], inst["n"]
    outer, inners, T, Tt, desc = build(sch, a, K, n, inst.get("sync"))
    mk, maxc = MERGES[inst["op"]]
    res = sch.start(lambda: outer.pipe(mk(lambda j: inners[j])), disposed=300)
    got = rec_tuples(res.messages)
    allev, starts, t_end, kind_end, err_times = ref_merge(T, Tt, a.oterm, desc, maxc)
    # expected elements: inner elements strictly before the end; elements stamped exactly t_end may or may not precede the
    # terminating notification (same-instant order across different inners is not fixed by the statement)
    must = sorted([(t, p) for (t, k, p, j) in allev if k == "N" and t < t_end])
    may = sorted([(t, p) for (t, k, p, j) in allev if k == "N" and t == t_end])
    gv = [(t, p) for t, k, p in got if k == "N"]
    if sorted([e for e in gv if e[0] < t_end]) != must:
        return False
    rest = [e for e in gv if e[0] >= t_end]
    for e in rest:
        if e not in may:
            return False
    if len(set(rest)) != len(rest):
        return False
    # times non-decreasing, per-inner order preserved (values of one inner increase)
    if [e[0] for e in gv] != sorted(e[0] for e in gv):
        return False
    for j in range(K):
        mine = [p for _, p in gv if p // 10 == j + 1]
        if mine != sorted(mine):
            return False
    gt = [(t, k, p) for t, k, p in got if k != "N"]
    if kind_end is None:
        if gt:
            return False
    else:
        if len(gt) != 1 or gt[0][0] != t_end or gt[0][1] != kind_end or got[-1][1] != kind_end:
            return False
        if kind_end == "E" and not any(gt[0][2] is e and t == t_end for t, e in err_times):
            return False
    # subscription logs: inner j subscribed exactly once at its computed start if that is before the end
    for j in range(K):
        log = [(s.subscribe, s.unsubscribe) for s in inners[j].subscriptions]
        if j in starts and starts[j] < t_end:
            if len(log) != 1 or log[0][0] != starts[j]:
                return False
            ev, term, rt, err = desc[j]
            natural = starts[j] + rt if term != 0 else 10 ** 9
            if log[0][1] != min(natural, t_end, 300):
                return False
        elif j in starts and starts[j] == t_end:
            if len(log) > 1:
                return False
        elif log:
            return False
    # never more than maxc inner subscriptions overlapping
    if maxc is not None:
        iv = [(s.subscribe, s.unsubscribe) for o in inners for s in o.subscriptions]
        for (s1, e1) in iv:
            if sum(1 for (s2, e2) in iv if s2 <= s1 < e2) > maxc:
                return False
    cover("ran")
    return True


ENCODED = ["reactivex/operators/_merge.py", "reactivex/operators/_flatmap.py", "reactivex/observable/merge.py",
           "reactivex/operators/_concatmap.py" if False else "reactivex/operators/__init__.py"]
BOUNDS = {"quick": "outer hot timeline of 1..2 inner sources with 1 element each (thorough: up to 3 inners / 2 elements; inners that emit and terminate synchronously inside subscribe(); cold: first element 0..2 ticks after its "
                   "subscription, 0 = in the very instant), outer and inner terminal kinds never/completed/error, gaps in [0,2]; "
                   "merge_all, flat_map, flat_map_indexed, merge(max_concurrent=1|2), concat_map",
          "thorough": "same instance set with the thorough budget"}
ASSUMES = ["Tick/Span time stub", "elements of different inners stamped with the same instant (and elements stamped with the instant "
           "of the terminating notification) are not ordered by the statement",
           "a queued inner starts in the instant in which a running one completed"]
MANIFEST = {
    "text": "Bounded symbolic model checking: the outer timeline, every inner timeline and all terminal kinds are solver variables; "
            "the output must be exactly the subscribed inners' elements at their own times with per-inner order, termination at "
            "the first error or after the outer and all inners completed, and the inner subscription logs must match the "
            "max_concurrent queueing discipline.",
    "note": "<=3 inners, <=2 elements each, max_concurrent in {1,2,unbounded}.",
}
