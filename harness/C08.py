"""C08 — falsy values are ordinary elements."""
from reactivex.subject import AsyncSubject, BehaviorSubject, ReplaySubject, Subject

from engine.api import I, harness, cover
from engine.lib import falsy, make_scheduler
from harness import pipe
from harness.catalog import Box, E, unbox


def deep_unbox(x):
    if isinstance(x, Box):
        return deep_unbox(x.v)
    if isinstance(x, tuple):
        return tuple(deep_unbox(y) for y in x)
    if isinstance(x, list):
        return [deep_unbox(y) for y in x]
    if hasattr(x, "kind") and hasattr(x, "accept"):
        return (x.kind, deep_unbox(getattr(x, "value", None)))
    if hasattr(x, "value") and (hasattr(x, "timestamp") or hasattr(x, "interval")):  # Timestamp / TimeInterval
        return (type(x).__name__, deep_unbox(x.value))
    return x


def trepr(x):
    """type-sensitive rendering (0, 0.0 and False are equal in Python but are different elements)"""
    if isinstance(x, (tuple, list)):
        return (type(x).__name__, [trepr(y) for y in x])
    if isinstance(x, BaseException):
        return ("exc", id(x))
    return (type(x).__name__, repr(x))


def _inst(tier):
    out = pipe.instances(tier, 2, 3, nmin=1, lean=True, tagsel=lambda t: "agnostic" in t and "multi" not in t)
    return [i for i in out if i["op"] not in ("timestamp", "time_interval") or True]


@harness(instances=_inst, timeout=(120, 900),
         fv0=I(0, 9), fv1=I(0, lambda i: 5 if i["N"] > 1 else 0), fv2=I(0, lambda i: 1 if i["N"] > 2 else 0),
         term=I(1, 2), p=I(0, 2), m=I(1, 2),
         term2=I(0, lambda i: 1 if "other" in E[i["op"]]["tags"] else 0), jg=I(0, lambda i: 1 if "inner" in E[i["op"]]["tags"] else 0))
def h_parametric(a, inst):
    """value-agnostic operators: the run on the raw falsy elements and the run on the same elements wrapped in an opaque,
    always-truthy Box must correspond under unboxing -- a truthiness / None test on an element changes only the raw run"""
    from engine.api import Args
    n = inst["N"]
    vals = [falsy(i) for i in (a.fv0, a.fv1, a.fv2)[:n]]
    # timing is concrete here (one tick apart): the symbolic budget goes to the element values
    a2 = Args(dict(a.__dict__, v=vals, g=[1] * n, tg=1, w=[0], h=[1], jterm=1))
    raw = pipe.run(a2, inst)
    boxed = pipe.run(a2, inst, box=True)
    e1 = [(t, k, trepr(deep_unbox(p)) if k == "N" else None) for t, k, p in raw.events]
    e2 = [(t, k, trepr(deep_unbox(p)) if k == "N" else None) for t, k, p in boxed.events]
    cover("ran")
    return e1 == e2


# ------------------------------------------------------------------ value-inspecting operators: reference models over the falsy domain
from reactivex import operators as ops  # noqa: E402
from engine.lib import messages, rec_tuples  # noqa: E402


def _ref_duc(xs):
    out = []
    for x in xs:
        if not out or not (out[-1] == x):
            out.append(x)
    return out


def _ref_distinct(xs):
    out = []
    for x in xs:
        if not any(y == x for y in out):
            out.append(x)
    return out


def _hashable(x):
    try:
        hash(x)
        return True
    except TypeError:
        return False


INSPECT = {
    "distinct_until_changed": (lambda q: ops.distinct_until_changed(), lambda xs, q: _ref_duc(xs)),
    "distinct_until_changed_key": (lambda q: ops.distinct_until_changed(lambda x: x), lambda xs, q: _ref_duc(xs)),
    "distinct": (lambda q: ops.distinct(), lambda xs, q: _ref_distinct(xs)),
    "filter_true": (lambda q: ops.filter(lambda x: True), lambda xs, q: list(xs)),
    "filter_is_q": (lambda q: ops.filter(lambda x: x == q), lambda xs, q: [x for x in xs if x == q]),
    "take_while_true": (lambda q: ops.take_while(lambda x: True), lambda xs, q: list(xs)),
    "skip_while_false": (lambda q: ops.skip_while(lambda x: False), lambda xs, q: list(xs)),
    "contains": (lambda q: ops.contains(q), lambda xs, q: [any(x == q for x in xs)]),
    "to_list": (lambda q: ops.to_list(), lambda xs, q: [list(xs)]),
    "first_or_default": (lambda q: ops.first_or_default(None, q), lambda xs, q: [xs[0] if xs else q]),
    "last_or_default": (lambda q: ops.last_or_default(q), lambda xs, q: [xs[-1] if xs else q]),
    "single_or_default_pred": (lambda q: ops.single_or_default(lambda x: False, q), lambda xs, q: [q]),
    "default_if_empty_filtered": (lambda q: reactivex_compose(ops.filter(lambda x: False), ops.default_if_empty(q)), lambda xs, q: [q]),
    "scan_pairs": (lambda q: ops.scan(lambda acc, x: x, q), lambda xs, q: list(xs)),
    "reduce_last": (lambda q: ops.reduce(lambda acc, x: x, q), lambda xs, q: [xs[-1] if xs else q]),
    "min_by_const": (lambda q: ops.min_by(lambda x: 0), lambda xs, q: [list(xs)]),
    "group_by_const": (lambda q: reactivex_compose(ops.group_by(lambda x: 0), ops.merge_all()), lambda xs, q: list(xs)),
    "map_identity": (lambda q: ops.map(lambda x: x), lambda xs, q: list(xs)),
    "start_with_q": (lambda q: ops.start_with(q), lambda xs, q: [q] + list(xs)),
    "element_at_or_default": (lambda q: ops.element_at_or_default(5, q), lambda xs, q: [q]),
    "zip_with_list": (lambda q: ops.zip_with_list([q, q, q]), lambda xs, q: [(x, q) for x in xs]),
    "with_self": (lambda q: ops.pairwise(), lambda xs, q: [(xs[i], xs[i + 1]) for i in range(len(xs) - 1)]),
}


def reactivex_compose(*fs):
    import reactivex
    return reactivex.compose(*fs)


@harness(instances=lambda tier: [{"op": o, "N": n} for o in INSPECT for n in range(0, 4 if tier == "quick" else 5)],
         timeout=(90, 900), fv0=I(0, 9), fv1=I(0, lambda i: 5 if i["N"] > 1 else 0), fv2=I(0, lambda i: 5 if i["N"] > 2 else 0),
         fv3=I(0, lambda i: 3 if i["N"] > 3 else 0), q=I(0, 3))
def h_inspect(a, inst):
    n = inst["N"]
    xs = [falsy(i) for i in (a.fv0, a.fv1, a.fv2, a.fv3)[:n]]
    q = falsy(a.q)
    build, ref = INSPECT[inst["op"]]
    sch = make_scheduler()
    src = sch.create_hot_observable(messages(xs, [1] * n, 1, 1))
    res = sch.start(lambda: src.pipe(build(q)))
    ev = rec_tuples(res.messages)
    got = [trepr(p) for _, k, p in ev if k == "N"]
    exp = [trepr(v) for v in ref(xs, q)]
    return got == exp and [k for _, k, _ in ev][-1:] == ["C"]


# ------------------------------------------------------------------ the four subjects with falsy values
def _sinst(tier):
    return [{"subject": s} for s in ("subject", "behavior", "replay", "async")]


@harness(instances=_sinst, fv=I(0, 9, n=2), init=I(0, 9), late=I(0, 1), timeout=(120, 600), stock=False)
def h_subjects(a, inst):
    vals = [falsy(i) for i in a.fv]
    kind = inst["subject"]
    s = {"subject": Subject, "behavior": lambda: BehaviorSubject(falsy(a.init)), "replay": lambda: ReplaySubject(2),
         "async": AsyncSubject}[kind]()
    got1, got2 = [], []
    s.subscribe(lambda v: got1.append(trepr(v)))
    s.on_next(vals[0])
    if a.late:
        s.subscribe(lambda v: got2.append(trepr(v)))
    s.on_next(vals[1])
    if not a.late:
        s.subscribe(lambda v: got2.append(trepr(v)))
    s.on_completed()
    tv = [trepr(v) for v in vals]
    if kind == "subject":
        exp1, exp2 = tv, ([tv[1]] if a.late else [])
    elif kind == "behavior":
        exp1 = [trepr(falsy(a.init))] + tv
        exp2 = ([tv[0], tv[1]] if a.late else [tv[1]])
    elif kind == "replay":
        exp1 = tv
        exp2 = tv
    else:
        exp1, exp2 = [tv[1]], [tv[1]]
    return got1 == exp1 and got2 == exp2


ENCODED = ["reactivex/operators/__init__.py", "reactivex/operators/_skiplast.py", "reactivex/operators/_pairwise.py",
           "reactivex/operators/_distinctuntilchanged.py", "reactivex/subject/behaviorsubject.py", "reactivex/subject/asyncsubject.py",
           "reactivex/subject/replaysubject.py", "reactivex/subject/subject.py"]
BOUNDS = {"quick": "every value-agnostic catalogued operator (depth 1), N in 1..2 elements (first from the 10-value falsy domain, second from its first six, third from its first two: "
                   "[None, 0, 0.0, False, '', (), [], {}, 1, 'a']), fixed one-tick spacing, terminal completed/error; the four subjects with two "
                   "falsy values and a falsy initial value; 22 value-inspecting operator forms against reference computations with N in 0..3 falsy elements and a falsy argument",
          "thorough": "N in 1..3"}
ASSUMES = ["Tick/Span time stub", "parametricity oracle: callbacks of value-agnostic operators are composed with unboxing; records "
           "compared by type-sensitive repr because 0 == False == 0.0 in Python",
           "value-inspecting operators (sum, min/max, distinct, contains, ...) are covered by the C05/C06 reference models over the falsy domain"]
MANIFEST = {
    "text": "Bounded symbolic model checking with a parametricity oracle: element values are solver-chosen indices into the falsy "
            "domain; each value-agnostic operator is run on the raw values and on Box-wrapped values and the records must "
            "correspond; subjects are checked against their statement with falsy values and initial values.",
    "note": "Depth-1 pipelines; N<=2 (quick).",
}
