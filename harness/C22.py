"""C22 — a ReplaySubject replays exactly its retained values, in order."""
from reactivex.subject import ReplaySubject

from engine.api import I, harness
from engine.lib import make_scheduler

ERR = Exception("replay-error")
# op codes: 0 on_next(fresh) 1 on_error 2 on_completed 3 subscribe A 4 subscribe B 5 unsubscribe A
NOPS = 6


class Obs:
    def __init__(self, sch):
        self.sch, self.log, self.handle, self.t_sub, self.t_unsub = sch, [], None, None, None

    def on_next(self, v):
        self.log.append((self.sch.clock, "N", v))

    def on_error(self, e):
        self.log.append((self.sch.clock, "E", e))

    def on_completed(self):
        self.log.append((self.sch.clock, "C", None))


def _inst(tier):
    out = []
    if tier == "quick":
        # first call fixed to on_next; 8 (buffer_size, window) configurations
        for bs, w in [(b, x) for b in (None, 0, 1, 2) for x in (None, 1, 2, 3)]:
            for second in range(NOPS - 1):  # 5 = unsubscribe A is a no-op this early
                out.append({"K": 4, "first": 0, "second": second, "bs": bs, "w": w, "_timeout": 120})
    else:
        for first in range(NOPS - 1):
            for second in range(NOPS):
                for bs in (None, 0, 1, 2):
                    for w in (None, 1, 2, 3):
                        out.append({"K": 5, "first": first, "second": second, "bs": bs, "w": w, "_timeout": 1500})
    return out


def _useful(a, inst):
    """prune histories containing calls that are no-ops for the harness bookkeeping (second subscribe of the same observer,
    unsubscribe before subscribe / twice): they add paths, not behaviour"""
    ops = [inst["first"], inst["second"]] + list(a.op)
    subA = subB = unsA = 0
    for o in ops:
        if o == 3:
            if subA:
                return False
            subA = 1
        elif o == 4:
            if subB:
                return False
            subB = 1
        elif o == 5:
            if not subA or unsA:
                return False
            unsA = 1
    return subA + subB > 0


def concretize(x, n):
    for c in range(n):
        if x == c:
            return c
    return n - 1


def expected(events, t_sub, seq_sub, bs, w):
    """events: [(time, seq, kind, value)] of the subject's input in call order (terminated input ignored).
    Returns the full expected log of an observer subscribing at (t_sub, seq_sub) and never unsubscribing."""
    before = [e for e in events if e[1] < seq_sub]
    after = [e for e in events if e[1] > seq_sub]
    vals = [e for e in before if e[2] == "N"]
    if bs is not None:
        vals = vals[len(vals) - bs:] if bs > 0 else []
    if w is not None:
        vals = [e for e in vals if t_sub - e[0] <= w]
    out = [(t_sub, "N", e[3]) for e in vals]
    term = [e for e in before if e[2] != "N"]
    if term:
        out.append((t_sub, term[0][2], term[0][3]))
        return out
    for e in after:
        out.append((e[0], e[2], e[3]))
        if e[2] != "N":
            break
    return out


def check_log(got, exp, t_unsub):
    """entries strictly before the unsubscribe instant must match exactly; entries at that instant may be cut short"""
    if t_unsub is None:
        return got == exp
    must = [e for e in exp if e[0] < t_unsub]
    may = [e for e in exp if e[0] == t_unsub]
    if got[: len(must)] != must:
        return False
    rest = got[len(must):]
    return rest == may[: len(rest)]


@harness(instances=_inst, pre=_useful, op=I(0, NOPS - 1, n=lambda i: i["K"] - 2), g=I(0, 2, n=lambda i: i["K"]), timeout=(200, 3000))
def h_replay(a, inst):
    sch = make_scheduler()
    bs, w = inst["bs"], inst["w"]
    subj = ReplaySubject(bs, w, sch)
    A, B = Obs(sch), Obs(sch)
    events = []  # accepted input of the subject
    state = {"seq": 0, "done": False, "nv": 0}
    t = 200
    plan = []
    for k in range(inst["K"]):
        t = t + a.g[k]
        plan.append((t, inst["first"] if k == 0 else (inst["second"] if k == 1 else concretize(a.op[k - 2], NOPS))))

    def mk(tk, code):
        def action(scheduler, _):
            state["seq"] += 1
            s = state["seq"]
            if code == 0:
                state["nv"] += 1
                if not state["done"]:
                    events.append((tk, s, "N", 100 + state["nv"]))
                subj.on_next(100 + state["nv"])
            elif code == 1:
                if not state["done"]:
                    events.append((tk, s, "E", ERR))
                    state["done"] = True
                subj.on_error(ERR)
            elif code == 2:
                if not state["done"]:
                    events.append((tk, s, "C", None))
                    state["done"] = True
                subj.on_completed()
            elif code in (3, 4):
                o = A if code == 3 else B
                if o.handle is None and o.t_sub is None:
                    o.t_sub, o.seq_sub = tk, s
                    o.handle = subj.subscribe(o.on_next, o.on_error, o.on_completed)
            else:
                if A.handle is not None and A.t_unsub is None:
                    A.t_unsub = tk
                    A.handle.dispose()
        return action

    for tk, code in plan:
        sch.schedule_absolute(tk, mk(tk, code))
    sch.start()
    for o in (A, B):
        if o.t_sub is None:
            if o.log:
                return False
            continue
        exp = expected(events, o.t_sub, o.seq_sub, bs, w)
        if not check_log(o.log, exp, o.t_unsub):
            return False
    return True


EXTRA_MODULES = ["harness.C22gt"]  # threads: a subscriber racing the producer (gate threads)
ENCODED = ["reactivex/subject/replaysubject.py", "reactivex/observer/scheduledobserver.py", "reactivex/subject/subject.py",
           "reactivex/scheduler/virtualtimescheduler.py", "reactivex/disposable/serialdisposable.py"]
BOUNDS = {"quick": "histories of 4 timed calls (the first one on_next) over {on_next, on_error, on_completed, subscribe A, subscribe B, unsubscribe A} with "
                   "symbolic gaps in [0,2] ticks; buffer_size in {None,0,1,2} x window in {None,1,2,3} (so age == window and "
                   "buffer_size == 0 are inside the range); threads (GT): a subscriber thread (subscribe, or subscribe and unsubscribe at once) racing a producer thread over 4 sequences, 2 ordered preemptions at instruction-level yield points of the subject modules",
          "thorough": "5 timed calls, any first call, all 16 configurations"}
ASSUMES = ["threads: gate-aware RLock shims; the late subscriber must receive one of the sequential outcomes (a prefix of one when it unsubscribes), the early subscriber everything, nothing may raise", "Tick/Span time stub (window passed as int ticks); replay runs through the real ScheduledObserver on the virtual-time scheduler",
           "'within the window' is read as age <= window", "notifications due in the very instant of an unsubscribe may be cut short (C03)"]
MANIFEST = {
    "engine": "XH+GT",
    "text": "Bounded symbolic model checking over timed call histories on the real ReplaySubject + ScheduledObserver + virtual-time "
            "scheduler: op codes and gaps are solver variables; each observer's (time, notification) log is compared with the "
            "retained-values reference computed from the statement.",
    "note": "4 (quick) / 5 (thorough) calls; 2 observers; 16 (buffer_size, window) configurations.",
}
