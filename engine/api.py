"""Harness API shared by every property module.

A harness is a plain Python function ``h(a, inst) -> bool`` that runs the *real* RxPY code.
``a`` carries the symbolic arguments (ints / lists of ints created by CrossHair), ``inst`` is
the concrete instance dictionary (the discrete split that spreads work over processes).
The function returns True when the oracle agrees with what the real code did; an exception
escaping the harness is a violation too.
"""
from __future__ import annotations

import json
import os
from typing import Any, Callable, Dict, List, Optional, Tuple

VERIF = os.path.dirname(os.path.dirname(os.path.abspath(__file__)))


class I:
    """Symbolic int parameter in [lo, hi]; with n it is a list of n such ints.
    lo / hi / n may be callables of the instance dict."""

    def __init__(self, lo, hi, n=None):
        self.lo, self.hi, self.n = lo, hi, n

    def resolve(self, inst):
        f = lambda x: x(inst) if callable(x) else x
        return f(self.lo), f(self.hi), (None if self.n is None else f(self.n))


class Args:
    def __init__(self, d):
        self.__dict__.update(d)

    def __repr__(self):
        return "Args(%r)" % (self.__dict__,)


class HarnessSpec:
    def __init__(self, fn, params, pre, instances, timeout, cover, stock):
        self.fn, self.params, self.pre = fn, params, pre
        self.instances, self.timeout, self.cover, self.stock = instances, timeout, cover, stock
        self.name = fn.__name__

    def flat_params(self, inst) -> List[Tuple[str, int, int]]:
        out = []
        for name, spec in self.params.items():
            lo, hi, n = spec.resolve(inst)
            if n is None:
                out.append((name, lo, hi))
            else:
                for i in range(n):
                    out.append(("%s%d" % (name, i), lo, hi))
        return out

    def pack(self, inst, flat: Dict[str, Any]) -> Args:
        d = {}
        for name, spec in self.params.items():
            _, _, n = spec.resolve(inst)
            if n is None:
                d[name] = flat[name]
            else:
                d[name] = [flat["%s%d" % (name, i)] for i in range(n)]
        return Args(d)


def harness(instances: Optional[Callable[[str], List[dict]]] = None, pre=None, timeout=None,
            cover=(), stock=True, **params):
    """Declare a harness.  params: name=I(lo, hi[, n]).  instances(tier) -> list of dicts.
    pre(a, inst) -> bool is an extra precondition over the symbolic arguments.
    cover: labels that must be hit (api.cover) on some explored path of every instance."""

    def deco(fn):
        fn.__harness__ = HarnessSpec(fn, params, pre, instances or (lambda tier: [{}]), timeout,
                                     tuple(cover), stock)
        return fn

    return deco


# ---------------------------------------------------------------- coverage labels (vacuity guards)
COVERED: set = set()


def cover(label: str) -> None:
    COVERED.add(label)


# ---------------------------------------------------------------- known findings
_KF = None


def known_findings() -> List[dict]:
    global _KF
    if _KF is None:
        p = os.path.join(VERIF, "known_findings.json")
        _KF = json.load(open(p)).get("findings", []) if os.path.exists(p) else []
    return _KF


def known(fid: str, cond) -> bool:
    """True iff finding `fid` is listed as open and `cond` (the finding's region) holds.
    Harnesses use it to carve exactly the recorded region out of the claim:
        if known('C07-negstart', start < 0 <= stop): return True
    When the finding is not (or no longer) listed as open the region is checked like any other."""
    if os.environ.get("VERIF_IGNORE_KNOWN"):
        return False
    for f in known_findings():
        if f.get("id") == fid and f.get("status") == "open":
            return bool(cond)
    return False


class Violation(Exception):
    """raised by harness helpers when an oracle is violated in a place where returning False is awkward"""
