"""Shared harness library: sources built from symbolic arguments, recorders, small utilities."""
from __future__ import annotations

import reactivex
from reactivex import operators as ops  # noqa: F401
from reactivex.testing import ReactiveTest
from reactivex.testing.subscription import Subscription  # noqa: F401

from engine.api import Violation, cover, known  # noqa: F401
from engine.ticktime import Span, Tick, TickScheduler, make_scheduler  # noqa: F401

on_next = ReactiveTest.on_next
on_completed = ReactiveTest.on_completed
on_error = ReactiveTest.on_error
SUB = ReactiveTest.subscribed  # 200
INF = 10**6  # "never unsubscribed" marker used by the test observables is sys.maxsize; we normalise


class Injected(Exception):
    """fault injected by the harness into a user callback / source"""

    def __init__(self, tag="fault"):
        super().__init__(tag)
        self.tag = tag

    def __eq__(self, other):  # identity only: the very exception object must be forwarded
        return self is other

    def __hash__(self):
        return id(self)


SRC_ERR = Injected("source-error")


def falsy(i):
    """The falsy-value domain, indexed by a bounded symbolic int (realised by branching, never by dict lookup)."""
    if i == 0:
        return None
    if i == 1:
        return 0
    if i == 2:
        return 0.0
    if i == 3:
        return False
    if i == 4:
        return ""
    if i == 5:
        return ()
    if i == 6:
        return []
    if i == 7:
        return {}
    if i == 8:
        return 1
    return "a"


FALSY_N = 10


def times_from_gaps(gaps, base=SUB + 10):
    """absolute times: base + g0, + g1, ..."""
    out, t = [], base
    for g in gaps:
        t = t + g
        out.append(t)
    return out


def messages(vals, gaps, term, tgap=1, base=SUB + 10, err=SRC_ERR):
    """Recorded messages for a timeline: len(vals) elements at cumulative gaps, then terminal
    term: 0 none, 1 completed, 2 error at last + tgap."""
    ts = times_from_gaps(gaps[: len(vals)], base)
    msgs = [on_next(t, v) for t, v in zip(ts, vals)]
    last = ts[-1] if ts else base
    if term == 1:
        msgs.append(on_completed(last + tgap))
    elif term == 2:
        msgs.append(on_error(last + tgap, err))
    return msgs


def expected_events(vals, gaps, term, tgap=1, base=SUB + 10, err=SRC_ERR):
    """The same timeline as plain tuples (time, kind, payload)."""
    ts = times_from_gaps(gaps[: len(vals)], base)
    ev = [(t, "N", v) for t, v in zip(ts, vals)]
    last = ts[-1] if ts else base
    if term == 1:
        ev.append((last + tgap, "C", None))
    elif term == 2:
        ev.append((last + tgap, "E", err))
    return ev


def rec_tuples(msgs):
    """MockObserver.messages -> [(time, kind, payload)]"""
    out = []
    for m in msgs:
        n = m.value
        if n.kind == "N":
            out.append((m.time, "N", n.value))
        elif n.kind == "E":
            out.append((m.time, "E", n.exception))
        else:
            out.append((m.time, "C", None))
    return out


def same(a, b):
    """structural equality that does not conflate 0 / False / 0.0 (type-sensitive on leaves)"""
    if isinstance(a, (list, tuple)) and isinstance(b, (list, tuple)):
        if type(a) is not type(b) and not (isinstance(a, (list, tuple)) and isinstance(b, (list, tuple))):
            return False
        if len(a) != len(b):
            return False
        for x, y in zip(a, b):
            if not same(x, y):
                return False
        return True
    if hasattr(a, "kind") and hasattr(b, "kind") and hasattr(a, "accept"):  # Notification objects (materialize)
        if a.kind != b.kind:
            return False
        if a.kind == "N":
            return same(a.value, b.value)
        if a.kind == "E":
            return same(a.exception, b.exception)
        return True
    if isinstance(a, BaseException) or isinstance(b, BaseException):
        if a is b:
            return True
        # injected exceptions must be forwarded by identity; library-raised ones are compared by type and message
        if isinstance(a, Injected) or isinstance(b, Injected):
            return False
        return type(a) is type(b) and str(a) == str(b)
    if isinstance(a, bool) or isinstance(b, bool):
        return isinstance(a, bool) and isinstance(b, bool) and a == b
    if isinstance(a, float) or isinstance(b, float):
        return isinstance(a, float) and isinstance(b, float) and a == b
    if a is None or b is None:
        return a is None and b is None
    return a == b


def same_events(got, exp):
    """[(time, kind, payload)] equality: times ==, kinds ==, payload via same(); errors by identity
    unless the expected payload is a type (then isinstance)."""
    if len(got) != len(exp):
        return False
    for (t1, k1, p1), (t2, k2, p2) in zip(got, exp):
        if k1 != k2:
            return False
        if t1 != t2:
            return False
        if k1 == "E" and isinstance(p2, type):
            if not isinstance(p1, p2):
                return False
        elif k1 == "E":
            if not same(p1, p2):
                return False
        elif not same(p1, p2):
            return False
    return True


def grammar_ok(kinds):
    """on_next* (on_error | on_completed)?"""
    done = False
    for k in kinds:
        if done:
            return False
        if k in ("E", "C"):
            done = True
    return True


def subs(obs):
    """subscription log of a test observable as [(subscribe, unsubscribe)]"""
    return [(s.subscribe, s.unsubscribe) for s in obs.subscriptions]


class Recorder:
    """Observer recording (clock, kind, payload, seq) with a global sequence counter shared through `seq`."""

    def __init__(self, sch, seq=None):
        self.sch = sch
        self.log = []
        self.seq = seq if seq is not None else [0]

    def _push(self, kind, payload):
        self.seq[0] += 1
        self.log.append((self.sch.clock, kind, payload, self.seq[0]))

    def on_next(self, v):
        self._push("N", v)

    def on_error(self, e):
        self._push("E", e)

    def on_completed(self):
        self._push("C", None)

    def events(self):
        return [(t, k, p) for t, k, p, _ in self.log]

    def kinds(self):
        return [k for _, k, _, _ in self.log]

    def subscribe_to(self, obs, scheduler=None):
        return obs.subscribe(self.on_next, self.on_error, self.on_completed, scheduler=scheduler)
