"""GT runtime: gate-serialised real threads with a schedule chosen by the harness (symbolic under CrossHair).

Exactly one worker runs at a time.  Workers stop at *yield points*: shared-access opcodes (LOAD_ATTR/STORE_ATTR/…DEREF/…SUBSCR/
CALL) of the watched modules' code objects (sys.monitoring INSTRUCTION events, tool id 3 -- CrossHair uses 4), and every
operation of the gate-aware lock/condition/event shims that replace the module-level names `RLock`, `Lock`, `Condition`, ...
of the code under test.  The main thread decides who continues; a blocked worker (lock held by another, condition not
notified) is a disabled yield point.  No symbolic value ever reaches a worker: the schedule is concretised on the main thread.
"""
from __future__ import annotations

import dis
import sys
import threading
import time
import types

mon = sys.monitoring
TOOL = 3
_INTEREST = {"LOAD_ATTR", "STORE_ATTR", "LOAD_DEREF", "STORE_DEREF", "BINARY_SUBSCR", "STORE_SUBSCR", "CALL"}
# coarse granularity: shared *writes* and calls only (a preemption just before a write still separates every check from its act)
_COARSE = {"STORE_ATTR", "STORE_DEREF", "STORE_SUBSCR", "CALL"}
GRANULARITY = "fine"
_offsets_coarse = {}
_registered = {}
_offsets = {}
_active = None
WATCHDOG = 20.0


class GateHang(Exception):
    """a gate wait exceeded the watchdog: harness error, never a verdict"""


def _code_objects(code):
    yield code
    for c in code.co_consts:
        if hasattr(c, "co_code"):
            yield from _code_objects(c)


def _on_instr(code, offset):
    g = _active
    if g is None:
        return
    idx = g.ident2idx.get(threading.get_ident())
    if idx is None:
        return
    if offset in (_offsets if GRANULARITY == "fine" else _offsets_coarse).get(code, ()):
        g.yield_point(idx, (code.co_name, offset))


def watch(*modules):
    """enable yield points on every function / method (and nested code object) defined in the given modules"""
    try:
        mon.use_tool_id(TOOL, "verif-gate")
    except ValueError:
        pass
    mon.register_callback(TOOL, mon.events.INSTRUCTION, _on_instr)
    for mod in modules:
        seen = []

        def visit(obj, depth=0):
            if isinstance(obj, types.FunctionType):
                if obj.__code__.co_filename == getattr(mod, "__file__", None):
                    seen.append(obj.__code__)
                    if getattr(obj, "__wrapped__", None) is not None:
                        visit(obj.__wrapped__, depth + 1)
            elif isinstance(obj, (staticmethod, classmethod)):
                visit(obj.__func__, depth + 1)
            elif isinstance(obj, property):
                for f in (obj.fget, obj.fset, obj.fdel):
                    if f:
                        visit(f, depth + 1)
            elif isinstance(obj, type) and depth < 3:
                for v in vars(obj).values():
                    visit(v, depth + 1)

        for v in list(vars(mod).values()):
            visit(v)
        for top in seen:
            for code in _code_objects(top):
                if code in _registered:
                    continue
                _registered[code] = True
                _offsets[code] = {i.offset for i in dis.get_instructions(code) if i.opname in _INTEREST}
                _offsets_coarse[code] = {i.offset for i in dis.get_instructions(code) if i.opname in _COARSE}
                mon.set_local_events(TOOL, code, mon.events.INSTRUCTION)


class Clock:
    """controlled clock (seconds); advancing it is a scheduler move, made only when every worker is blocked"""
    t = 0.0


class Gate:
    def __init__(self):
        global _active
        self.cv = threading.Condition()
        self.current = None
        self.done = []
        self.errors = {}
        self.ident2idx = {}
        self.blocked_on = {}  # idx -> lock-like object with .can_acquire(me)
        self.waiting = {}  # idx -> waiter record [notified, deadline]
        self.steps = 0
        self.trace = []
        self.names = []
        Clock.t = 0.0
        _active = self

    # ---- worker side
    def yield_point(self, idx, where=None):
        with self.cv:
            self.current = None
            self.cv.notify_all()
            t0 = time.time()
            while self.current != idx:
                self.cv.wait(1.0)
                if time.time() - t0 > WATCHDOG * 6:
                    raise GateHang("worker %d abandoned" % idx)

    def me(self):
        return self.ident2idx.get(threading.get_ident())

    def spawn(self, fn, name=None):
        idx = len(self.done)
        self.done.append(False)
        self.names.append(name or "w%d" % idx)

        def run():
            with self.cv:
                while self.current != idx:
                    self.cv.wait(1.0)
            self.ident2idx[threading.get_ident()] = idx
            try:
                fn()
            except BaseException as e:  # noqa: BLE001  (recorded for the monitor; never swallowed silently)
                self.errors[idx] = e
            finally:
                self.ident2idx.pop(threading.get_ident(), None)
                with self.cv:
                    self.done[idx] = True
                    self.current = None
                    self.cv.notify_all()

        threading.Thread(target=run, daemon=True, name="gate-%d" % idx).start()
        return idx

    # ---- main side
    def enabled(self, i):
        if self.done[i]:
            return False
        w = self.waiting.get(i)
        if w is not None and not (w[0] or (w[1] is not None and Clock.t >= w[1])):
            return False
        lk = self.blocked_on.get(i)
        return lk is None or lk.owner is None

    def step(self, idx):
        with self.cv:
            self.current = idx
            self.cv.notify_all()
            t0 = time.time()
            while self.current is not None:
                self.cv.wait(0.5)
                if time.time() - t0 > WATCHDOG:
                    raise GateHang("worker %d (%s) did not reach a yield point within %ss" % (idx, self.names[idx], WATCHDOG))
        self.steps += 1

    def run(self, preempts=(), maxsteps=4000, first=0, fallback="lowest"):
        """non-preemptive scheduling (the running worker keeps running) with preemptions [(position, target)], position counted in
        yield points.  Returns 'done' or 'deadlock' (all unfinished workers disabled and no clock move can enable one)."""
        cur = first
        pos = 0
        n = len(self.done)
        while not all(self.done):
            if pos >= maxsteps:
                return "maxsteps"
            for (p, tgt) in preempts:
                if pos == p and tgt < 0:
                    # relative target: the (-tgt)-th *other* thread that can run (or whose timed wait can expire); with k other
                    # threads the targets -1..-k cover every meaningful switch at this position
                    cand = []
                    for i in range(len(self.done)):
                        w = self.waiting.get(i)
                        timed = w is not None and not w[0] and w[1] is not None and Clock.t < w[1]
                        if i != cur and not self.done[i] and (self.enabled(i) or (timed and self.blocked_on.get(i) is None)):
                            cand.append(i)
                    if cand:
                        tgt = cand[(-tgt - 1) % len(cand)]
                if pos == p and tgt >= 0:
                    for i in range(len(self.done)):
                        if tgt == i:
                            w = self.waiting.get(i)
                            if w is not None and not w[0] and w[1] is not None and Clock.t < w[1]:
                                # a preemption towards a thread sleeping until a deadline is the scheduler move "time passes":
                                # the running thread was slow enough for the timed wait to expire
                                Clock.t = w[1]
                            if self.enabled(i):
                                cur = i
            if cur >= len(self.done) or not self.enabled(cur):
                nxt = [i for i in range(len(self.done)) if self.enabled(i)]
                if not nxt:
                    dl = [w[1] for w in self.waiting.values() if w[1] is not None and not w[0]]
                    if not dl:
                        return "deadlock"
                    Clock.t = min(dl)  # time passes only when everybody is blocked
                    continue
                # when the running thread blocks or ends: the lowest runnable thread, or (round robin) the next one after it
                later = [i for i in nxt if i > cur]
                cur = later[0] if (fallback == "rr" and later) else nxt[0]
            self.step(cur)
            pos += 1
        return "done"


# ---------------------------------------------------------------- gate-aware primitives (contract: Python threading docs)
class GateRLock:
    def __init__(self):
        self.owner, self.depth = None, 0

    def acquire(self, blocking=True, timeout=-1):
        g, me = _active, threading.get_ident()
        idx = g.ident2idx.get(me) if g else None
        if idx is not None:
            g.yield_point(idx, "acquire")
        while not (self.owner is None or self.owner == me):
            if idx is None:
                raise RuntimeError("ungated thread would block on a gate lock")
            if not blocking:
                return False
            g.blocked_on[idx] = self
            g.yield_point(idx, "blocked")
        if idx is not None:
            g.blocked_on.pop(idx, None)
        self.owner = me
        self.depth += 1
        return True

    def release(self):
        self.depth -= 1
        if self.depth == 0:
            self.owner = None

    __enter__ = acquire

    def __exit__(self, *a):
        self.release()


class SelfDeadlock(Exception):
    pass


class GateLock(GateRLock):
    def acquire(self, blocking=True, timeout=-1):
        if self.owner == threading.get_ident():
            raise SelfDeadlock("non-reentrant Lock re-acquired by its owner (blocks forever)")
        return super().acquire(blocking, timeout)

    __enter__ = acquire

    def locked(self):
        return self.owner is not None


class GateCondition:
    def __init__(self, lock=None):
        self.lock = lock or GateRLock()
        self.waiters = []

    def __enter__(self):
        return self.lock.__enter__()

    def __exit__(self, *a):
        return self.lock.__exit__(*a)

    def acquire(self, *a):
        return self.lock.acquire(*a)

    def release(self):
        return self.lock.release()

    def wait(self, timeout=None):
        g, me = _active, threading.get_ident()
        idx = g.ident2idx[me]
        depth, self.lock.depth, self.lock.owner = self.lock.depth, 0, None
        w = [False, None if timeout is None else Clock.t + max(0.0, timeout)]
        self.waiters.append(w)
        g.waiting[idx] = w
        while not (w[0] or (w[1] is not None and Clock.t >= w[1])):
            g.yield_point(idx, "cond-wait")
        g.waiting.pop(idx, None)
        if w in self.waiters:
            self.waiters.remove(w)
        while self.lock.owner is not None:
            g.blocked_on[idx] = self.lock
            g.yield_point(idx, "cond-reacquire")
        g.blocked_on.pop(idx, None)
        self.lock.owner, self.lock.depth = me, depth
        return w[0]

    def notify(self, n=1):
        for w in self.waiters[:n]:
            w[0] = True
        del self.waiters[:n]

    def notify_all(self):
        self.notify(len(self.waiters))


class GateEvent:
    def __init__(self):
        self._flag = False
        self._cond = GateCondition()

    def is_set(self):
        return self._flag

    def set(self):
        with self._cond:
            self._flag = True
            self._cond.notify_all()

    def clear(self):
        self._flag = False

    def wait(self, timeout=None):
        with self._cond:
            if not self._flag:
                self._cond.wait(timeout)
            return self._flag


class GateTimer:
    """threading.Timer contract: the function runs on a new (gated) thread, not before `interval` on the controlled clock,
    unless cancel() was called before it started"""

    def __init__(self, interval, function, args=None, kwargs=None):
        self.interval, self.function = interval, function
        self.args, self.kwargs = args or (), kwargs or {}
        self.finished = GateEvent()
        self.daemon = True

    def start(self):
        g = _active

        def body():
            self.finished.wait(self.interval)
            if not self.finished.is_set():
                self.function(*self.args, **self.kwargs)
            self.finished._flag = True

        g.spawn(body, "timer")

    def cancel(self):
        self.finished.set()


def gated_thread_factory(target):
    """thread_factory for EventLoopScheduler / NewThreadScheduler: the thread is a gated worker started on .start()"""
    class T:
        daemon = True

        def start(self_inner):
            _active.spawn(target, "loop")

    return T()


def concrete(x, lo, hi):
    """concretise a symbolic schedule variable known to lie in lo..hi on the main thread by bisection: log2(hi-lo) branch
    decisions per path, and the search tree still covers every value"""
    while lo < hi:
        mid = (lo + hi) // 2
        if x <= mid:
            hi = mid
        else:
            lo = mid + 1
    return lo


def pick_schedule(a, inst, L, nt):
    """concretise the preemption schedule of an instance: P ordered positions (the first within the instance's chunk lo..hi), each
    with a relative target in -1..-nt.  Returns None when this region of the schedule space is empty or covered elsewhere"""
    P = inst["P"]
    pre = ([a.p0] + list(a.pos))[:P]
    for i in range(1, P):
        if pre[i] <= pre[i - 1]:
            return None  # ordered positions only (an unordered tuple is the same schedule)
    out = []
    for i in range(P):
        lo = inst.get("lo", 0) if i == 0 else 0
        hi = min(inst.get("hi", 10 ** 6) if i == 0 else 10 ** 6, L + 2)
        if lo > hi or pre[i] > hi or pre[i] < lo:
            return None  # beyond the end of the run: no preemption there (covered by the schedules with fewer preemptions)
        out.append((concrete(pre[i], lo, hi), -1 - (concrete(a.tgt[i], 0, nt - 1) if nt > 1 else 0)))
    return out


def position_chunks(L, width):
    """split the first preemption position 0..L into instance-sized chunks"""
    return [(lo, min(lo + width - 1, L) if lo + width <= L else 10 ** 6) for lo in range(0, L + 1, width)]


def untraced():
    """the gated run needs no symbolic tracing (the schedule was concretised before): suspend CrossHair's tracer for its duration"""
    try:
        from crosshair.tracers import NoTracing, is_tracing
        if is_tracing():
            return NoTracing()
    except Exception:  # noqa: BLE001
        pass
    import contextlib
    return contextlib.nullcontext()


def controlled_now():
    from datetime import timedelta

    from reactivex.internal.constants import UTC_ZERO
    return UTC_ZERO + timedelta(seconds=Clock.t)


class install:
    """context manager: rebind module-level primitives of the code under test to the gate-aware ones"""

    NAMES = {"RLock": GateRLock, "Lock": GateLock, "Condition": GateCondition, "Event": GateEvent, "Timer": GateTimer}

    def __init__(self, *modules, extra=None):
        self.modules, self.saved, self.extra = modules, [], extra or {}

    def __enter__(self):
        for m in self.modules:
            for n, repl in list(self.NAMES.items()) + list(self.extra.items()):
                if hasattr(m, n):
                    self.saved.append((m, n, getattr(m, n)))
                    setattr(m, n, repl)
            if hasattr(m, "threading") and isinstance(getattr(m, "threading"), types.ModuleType):
                self.saved.append((m, "threading", m.threading))
                shim = types.SimpleNamespace(**{k: getattr(threading, k) for k in dir(threading) if not k.startswith("__")})
                for n, repl in self.NAMES.items():
                    setattr(shim, n, repl)
                setattr(m, "threading", shim)
        return self

    def __exit__(self, *a):
        for m, n, v in reversed(self.saved):
            setattr(m, n, v)
        global _active
        _active = None
