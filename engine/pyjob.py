"""Worker for non-CrossHair engines (direct z3 / gate threads): runs module.fn(inst, timeout) -> result dict, prints XHRESULT."""
import argparse, importlib, json, os, sys, time, traceback

sys.path.insert(0, os.path.dirname(os.path.dirname(os.path.abspath(__file__))))


def main():
    ap = argparse.ArgumentParser()
    ap.add_argument("--module", required=True)
    ap.add_argument("--fn", required=True)
    ap.add_argument("--inst", default="{}")
    ap.add_argument("--timeout", type=float, default=120)
    a = ap.parse_args()
    t0 = time.time()
    inst = json.loads(a.inst)
    try:
        mod = importlib.import_module(a.module)
        res = getattr(mod, a.fn)(inst, a.timeout)
    except BaseException as e:
        res = {"status": "ERROR", "message": repr(e), "traceback": traceback.format_exc()[-3000:]}
    res.setdefault("module", a.module)
    res.setdefault("fn", a.fn)
    res.setdefault("inst", inst)
    res.setdefault("wall_s", round(time.time() - t0, 2))
    sys.stdout.flush()
    print("XHRESULT " + json.dumps(res, default=repr))
    sys.stdout.flush()
    os._exit(0)


if __name__ == "__main__":
    main()
