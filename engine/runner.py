"""./vcheck <Cxx> [--tier quick|thorough] [--only SUBSTR] [--jobs N]     |    ./vcheck replay <file> [--stock]

Generates the harness instances of one property, decides each with its engine in a pool of worker
processes, replays every counterexample on the real code before reporting it, applies the committed
known-findings file and writes evidence/<id>.json.

exit 0: no violation on everything explored (inconclusive instances are listed in the evidence, never counted as held)
exit 1: VIOLATION property=<id> replay=<path>   (reproduced on the real code, outside the known findings)
exit 2: harness error (never accompanied by a VIOLATION line)
"""
from __future__ import annotations

import argparse
import concurrent.futures as cf
import hashlib
import importlib
import inspect
import json
import os
import random
import subprocess
import sys
import time

VERIF = os.path.dirname(os.path.dirname(os.path.abspath(__file__)))
sys.path.insert(0, VERIF)
if os.environ.get("VERIF_REPO"):
    sys.path.insert(1, os.environ["VERIF_REPO"])
PY = os.path.join(VERIF, ".venv", "bin", "python")
# VERIF_REPO (development only: seeded-defect runs against a scratch worktree) puts another checkout ahead of /repo
REPO = os.environ.get("VERIF_REPO") or "/repo"
ENV = dict(os.environ, PYTHONHASHSEED="0", PYTHONDONTWRITEBYTECODE="1",
           PYTHONPATH=VERIF + (os.pathsep + REPO if REPO != "/repo" else ""))


def _run(cmd, timeout, env=None):
    t0 = time.time()
    try:
        p = subprocess.run(cmd, cwd=VERIF, env=env or ENV, capture_output=True, text=True, timeout=timeout)
        return p.returncode, p.stdout, p.stderr, time.time() - t0
    except subprocess.TimeoutExpired as e:
        out = e.stdout.decode() if isinstance(e.stdout, bytes) else (e.stdout or "")
        err = e.stderr.decode() if isinstance(e.stderr, bytes) else (e.stderr or "")
        return -9, out, err, time.time() - t0


def inst_key(job):
    s = json.dumps(job["inst"], sort_keys=True)
    short = "-".join("%s" % v for v in job["inst"].values())[:60].replace("/", "_").replace(" ", "")
    return "%s.%s.%s" % (job["fn"], short, hashlib.sha1(s.encode()).hexdigest()[:6])


DEADLINE = [None]  # wall-clock deadline of the whole check (thorough tier): instances not started by then are inconclusive


def run_job(job):
    eng = job.get("engine", "xh")
    if DEADLINE[0] is not None and time.time() > DEADLINE[0]:
        return {"status": "UNKNOWN", "message": "not explored: the wall-clock budget of this tier was used up before the instance started",
                "job": job, "key": inst_key(job), "wall_s": 0.0, "paths": 0, "queries": 0}
    if eng == "xh":
        cmd = [PY, "-m", "engine.xh", "--module", job["module"], "--fn", job["fn"], "--inst", json.dumps(job["inst"]),
               "--timeout", str(job["timeout"])]
        if job.get("per_path"):
            cmd += ["--per-path", str(job["per_path"])]
        hard = job["timeout"] * 2 + 60
    else:
        cmd = [PY, "-m", "engine.pyjob", "--module", job["module"], "--fn", job["fn"], "--inst", json.dumps(job["inst"]),
               "--timeout", str(job["timeout"])]
        hard = job["timeout"] * 1.5 + 60
    env = dict(ENV)
    env.update(job.get("env", {}))
    rc, out, err, wall = _run(cmd, hard, env)
    res = None
    for line in out.splitlines():
        if line.startswith("XHRESULT "):
            res = json.loads(line[9:])
    if res is None:
        res = {"status": "UNKNOWN" if rc == -9 else "ERROR",
               "message": ("hard timeout after %ds" % hard) if rc == -9 else ("worker died rc=%s: %s" % (rc, (err or out)[-1500:]))}
    res["job"] = job
    res["key"] = inst_key(job)
    res.setdefault("wall_s", round(wall, 2))
    return res


def replay(job, args, stock=False, timeout=120):
    cmd = [PY, "-m", "engine.replay", "--module", job["module"], "--fn", job["fn"], "--inst", json.dumps(job["inst"]),
           "--args", json.dumps(args)]
    if stock:
        cmd.append("--stock")
    env = dict(ENV)
    env.update(job.get("env", {}))
    rc, out, err, _ = _run(cmd, timeout, env)
    if rc == -9:
        return ("hang", "still running after %ds watchdog" % timeout)
    if rc == 0:
        return ("holds", out.strip()[-500:])
    if rc == 1:
        return ("violated", out.strip()[-1500:])
    return ("error", (err or out)[-1500:])


def _fn_of(job):
    return getattr(importlib.import_module(job["module"]), job["fn"], None)


def collect_jobs(mod0, tier, only=None):
    jobs = []
    # a property module may name further harness modules (e.g. a gate-thread part imported without the pure-Python stdlib)
    mods = [mod0] + [importlib.import_module(m) for m in getattr(mod0, "EXTRA_MODULES", [])]
    for mod, name, fn in [(m, n, f) for m in mods for n, f in vars(m).items()]:
        spec = getattr(fn, "__harness__", None)
        if spec is None or inspect.getmodule(fn) is not mod:
            continue
        tmo = spec.timeout or (60, 600)
        if isinstance(tmo, (int, float)):
            tmo = (tmo, tmo * 10)
        for inst in spec.instances(tier):
            inst = dict(inst)
            meta = {k[1:]: inst.pop(k) for k in list(inst) if k.startswith("_")}
            job = {"engine": meta.get("engine", "xh"), "module": mod.__name__, "fn": name, "inst": inst,
                   "timeout": meta.get("timeout", tmo[0] if tier == "quick" else tmo[1])}
            if "env" in meta:
                job["env"] = meta["env"]
            if "per_path" in meta:
                job["per_path"] = meta["per_path"]
            jobs.append(job)
    mod = mod0
    if hasattr(mod, "JOBS"):
        for j in mod.JOBS(tier):
            j.setdefault("module", mod.__name__)
            j.setdefault("engine", "py")
            j.setdefault("inst", {})
            j.setdefault("timeout", 120 if tier == "quick" else 900)
            jobs.append(j)
    if only:
        jobs = [j for j in jobs if only in inst_key(j) or only in json.dumps(j["inst"])]
    return jobs


def sample_args(spec, inst, rng, tries=30):
    flat = spec.flat_params(inst)
    for _ in range(tries):
        d = {n: rng.randint(lo, hi) for n, lo, hi in flat}
        if spec.pre is None:
            return d
        try:
            if spec.pre(spec.pack(inst, d), inst):
                return d
        except Exception:
            pass
    return None


def main(argv=None):
    argv = list(sys.argv[1:] if argv is None else argv)
    if argv and argv[0] == "replay":
        rc = subprocess.call([PY, "-m", "engine.replay", "--file", argv[1]] + argv[2:], cwd=VERIF, env=ENV)
        sys.exit(rc)
    ap = argparse.ArgumentParser()
    ap.add_argument("pid")
    ap.add_argument("--tier", default=os.environ.get("VERIF_TIER", "quick"))
    ap.add_argument("--only")
    ap.add_argument("--jobs", type=int, default=min(16, os.cpu_count() or 4))
    ap.add_argument("--no-evidence", action="store_true")
    a = ap.parse_args(argv)
    pid, tier = a.pid, a.tier
    seed = int(os.environ.get("VERIF_SEED", "0") or 0)
    t0 = time.time()
    try:
        mod = importlib.import_module("harness." + pid)
    except Exception as e:
        # an import failure of the repository under test is visible here: harness error, not a pass
        print("HARNESS-ERROR cannot import harness.%s: %r" % (pid, e))
        import traceback

        traceback.print_exc()
        sys.exit(2)
    jobs = collect_jobs(mod, tier, a.only)
    rng = random.Random(seed)
    rng.shuffle(jobs)
    jobs.sort(key=lambda j: -j["timeout"])  # long ones first
    # total wall-clock budget: generous for the quick tier (never reached on 16 cores), 35 min for the thorough tier; what does not
    # fit is reported as inconclusive in the evidence, never as held
    budget = float(os.environ.get("VERIF_WALL_BUDGET", "3000" if tier == "quick" else "2100"))
    DEADLINE[0] = time.time() + budget
    cap = os.environ.get("VERIF_INSTANCE_CAP")  # development aid: cap every instance's timeout (a capped run proves less, never more)
    if cap:
        for j in jobs:
            j["timeout"] = min(j["timeout"], float(cap))
    results = []
    with cf.ThreadPoolExecutor(max_workers=a.jobs) as ex:
        for r in ex.map(run_job, jobs):
            results.append(r)
    by_status = {}
    for r in results:
        by_status.setdefault(r["status"], []).append(r)

    violations, harness_errors, inconclusive, notes = [], [], [], []
    os.makedirs(os.path.join(VERIF, "evidence", "replays"), exist_ok=True)
    replays_done = 0
    # vacuity guard: required coverage labels
    for r in by_status.get("CONFIRMED", []):
        fn = _fn_of(r["job"])
        spec = getattr(fn, "__harness__", None)
        need = set(spec.cover) if spec else set(r["job"].get("cover", []))
        miss = need - set(r.get("covered", []))
        if miss:
            r["status"] = "UNKNOWN"
            r["message"] = "vacuity guard: labels never covered: %s" % sorted(miss)
    for r in results:
        st = r["status"]
        if st == "CONFIRMED":
            continue
        if st == "ERROR":
            harness_errors.append(r)
        elif st == "REFUTED":
            job = r["job"]
            args = r.get("args")
            if job.get("engine", "xh") != "xh":
                # py jobs replay themselves (the job reports `replayed`)
                if r.get("replayed"):
                    violations.append((r, r.get("replay_detail", "")))
                else:
                    harness_errors.append(r)
                continue
            if args is None:
                harness_errors.append(r)
                continue
            v, detail = replay(job, args)
            replays_done += 1
            if v in ("violated", "hang"):
                fn = _fn_of(job)
                if fn.__harness__.stock:
                    v2, detail2 = replay(job, args, stock=True)
                    replays_done += 1
                    if v2 == "holds":
                        r["message"] = "counterexample exists only under the Tick stub (stub artefact): " + detail
                        harness_errors.append(r)
                        continue
                    if v2 == "error":
                        notes.append("stock replay of %s could not run: %s" % (r["key"], detail2[-200:]))
                violations.append((r, detail))
            elif v == "holds":
                r["message"] = "counterexample did not reproduce concretely: " + str(r.get("message"))
                harness_errors.append(r)
            else:
                r["message"] = "replay error: " + detail
                harness_errors.append(r)
        else:
            inconclusive.append(r)

    # concrete validation of confirmed instances: seeded samples on the Tick stub and on the stock scheduler
    batch = []
    for r in by_status.get("CONFIRMED", []):
        if r["status"] != "CONFIRMED" or r["job"].get("engine", "xh") != "xh":
            continue
        fn = _fn_of(r["job"])
        spec = fn.__harness__
        d = sample_args(spec, r["job"]["inst"], rng)
        if d is None:
            continue
        r["sample"] = d
        batch.append({"key": r["key"], "module": r["job"]["module"], "fn": r["job"]["fn"], "inst": r["job"]["inst"],
                      "args": d, "stock": False, "env": r["job"].get("env", {})})
        if spec.stock:
            batch.append(dict(batch[-1], stock=True))
    validated = 0
    if batch:
        work = os.path.join(VERIF, ".work")
        os.makedirs(work, exist_ok=True)
        # group by env
        groups = {}
        for b in batch:
            groups.setdefault(json.dumps(b.pop("env"), sort_keys=True), []).append(b)
        for gi, (envs, items) in enumerate(groups.items()):
            bf = os.path.join(work, "batch-%s-%d-%d.json" % (pid, os.getpid(), gi))
            json.dump(items, open(bf, "w"))
            env = dict(ENV)
            env.update(json.loads(envs))
            rc, out, err, _ = _run([PY, "-m", "engine.replay", "--batch", bf], 600, env)
            os.unlink(bf)
            seen = 0
            for line in out.splitlines():
                if not line.startswith("REPLAY "):
                    continue
                d = json.loads(line[7:])
                it = items[seen]
                seen += 1
                if d["ok"] is True:
                    validated += 1
                elif d["ok"] is False:
                    rr = next(x for x in results if x["key"] == d["key"])
                    if it["stock"]:
                        rr = dict(rr, status="ERROR", message="sample holds under the Tick stub but fails on the stock scheduler: %r %s" % (it["args"], d["detail"]))
                        harness_errors.append(rr)
                    else:
                        rr = dict(rr, status="REFUTED", args=it["args"], message="concrete sample violates the oracle although XH confirmed: " + d["detail"])
                        violations.append((rr, d["detail"]))
                else:
                    notes.append("sample replay error %s: %s" % (d["key"], d["detail"]))
            if seen < len(items):
                notes.append("sample batch ended early (%d of %d): %s" % (seen, len(items), err[-300:]))

    # known findings
    from engine import api

    kf_lines = []
    for f in api.known_findings():
        if f.get("property") != pid or f.get("status") != "open":
            continue
        w = f.get("witness")
        if w:
            job = {"module": w["module"], "fn": w["fn"], "inst": w["inst"], "env": {"VERIF_IGNORE_KNOWN": "1"}}
            v, detail = replay(job, w["args"], stock=bool(w.get("stock")))
            replays_done += 1
            if v in ("violated", "hang"):
                kf_lines.append("KNOWN-FINDING: property=%s %s" % (pid, f["what"]))
            else:
                notes.append("known finding %s no longer reproduces (%s): consider marking it fixed" % (f["id"], v))
        else:
            kf_lines.append("KNOWN-FINDING: property=%s %s" % (pid, f["what"]))

    # ---- report
    vio_paths = []
    for r, detail in violations:
        path = os.path.join(VERIF, "evidence", "replays", "%s-%s.json" % (pid, r["key"]))
        json.dump({"property": pid, "module": r["job"]["module"], "fn": r["job"]["fn"], "inst": r["job"]["inst"],
                   "args": r.get("args"), "env": r["job"].get("env", {}), "message": r.get("message"), "detail": detail},
                  open(path, "w"), indent=1)
        vio_paths.append(path)
    confirmed = [r for r in results if r["status"] == "CONFIRMED"]
    paths = sum(int(r.get("paths") or 0) for r in results)
    queries = sum(int(r.get("queries") or 0) for r in results)
    solver_s = sum(float(r.get("solver_s") or 0) for r in results)
    wall = time.time() - t0
    print("%s tier=%s instances=%d confirmed=%d refuted=%d inconclusive=%d errors=%d paths=%d queries=%d solver_s=%.1f wall=%.0fs"
          % (pid, tier, len(results), len(confirmed), len(violations), len(inconclusive), len(harness_errors), paths, queries, solver_s, wall))
    for r in inconclusive:
        print("  INCONCLUSIVE %s: %s %s" % (r["key"], r["status"], (r.get("message") or "")[:200]))
    for n in notes:
        print("  NOTE " + n)
    for l in kf_lines:
        print(l)
    for r in harness_errors:
        print("HARNESS-ERROR %s: %s" % (r["key"], (r.get("message") or "")[:1500]))
        if r.get("traceback"):
            print(r["traceback"][-1500:])

    if not a.no_evidence and not a.only:
        write_evidence(mod, pid, tier, seed, results, confirmed, violations, inconclusive, harness_errors, paths, queries,
                       solver_s, validated + replays_done, wall, kf_lines, notes)
    if harness_errors and not violations:
        sys.exit(2)
    if violations:
        for (r, detail), p in zip(violations, vio_paths):
            print("  counterexample %s args=%s :: %s" % (r["key"], r.get("args"), detail.splitlines()[0][:300] if detail else ""))
            print("VIOLATION property=%s replay=%s" % (pid, p))
        sys.exit(1)
    sys.exit(0)


def source_hashes(mod):
    out = []
    for f in getattr(mod, "ENCODED", []):
        p = os.path.join(REPO, f)
        try:
            out.append({"file": f, "sha1": hashlib.sha1(open(p, "rb").read()).hexdigest()[:12]})
        except OSError:
            out.append({"file": f, "sha1": None})
    return out


def write_evidence(mod, pid, tier, seed, results, confirmed, violations, inconclusive, harness_errors, paths, queries,
                   solver_s, validated, wall, kf_lines, notes):
    samples = []
    for r in confirmed[:4]:
        samples.append({"instance": r["key"], "inst": r["job"]["inst"], "symbolic_params": r.get("params"),
                        "verdict": r["status"], "paths": r.get("paths"), "one_member": r.get("sample")})
    for r, _ in violations[:3]:
        samples.append({"instance": r["key"], "inst": r["job"]["inst"], "counterexample": r.get("args"), "verdict": "REFUTED+REPLAYED"})
    if not samples:
        samples = [{"instance": r["key"], "verdict": r["status"]} for r in results[:3]] or [{"note": "no instances"}]
    ev = {
        "property_id": pid, "tier": tier, "seed": seed, "level": getattr(mod, "LEVEL", "model_checking"),
        "coverage": {
            "states": max(paths, 1), "transitions": max(queries, 1), "traces_validated_against_impl": validated,
            "samples": samples,
            "explanation": getattr(mod, "EXPLANATION", "bounded symbolic model checking of the real code: every instance is a harness "
                                   "over /repo's modules executed symbolically (CrossHair) with z3 deciding each branch; states = "
                                   "symbolic paths confirmed, transitions = solver queries"),
            "exhaustive": not inconclusive and not harness_errors,
            "instances": len(results), "confirmed": len(confirmed), "refuted_replayed": len(violations),
            "inconclusive": [{"instance": r["key"], "why": (r.get("message") or r["status"])[:200]} for r in inconclusive],
            "solver_s": round(solver_s, 2),
            "functions_encoded": source_hashes(mod),
            "bounds": getattr(mod, "BOUNDS", {}).get(tier, getattr(mod, "BOUNDS", {})) if isinstance(getattr(mod, "BOUNDS", {}), dict) else str(mod.BOUNDS),
            "per_instance": [{"instance": r["key"], "verdict": r["status"], "paths": r.get("paths"), "queries": r.get("queries"),
                              "solver_s": r.get("solver_s"), "wall_s": r.get("wall_s")} for r in results],
            "known_findings_seen": kf_lines, "notes": notes,
        },
        "assumptions": list(getattr(mod, "ASSUMES", [])),
        "wall_s": round(wall, 1), "violations": len(violations),
    }
    os.makedirs(os.path.join(VERIF, "evidence"), exist_ok=True)
    json.dump(ev, open(os.path.join(VERIF, "evidence", pid + ".json"), "w"), indent=1, default=repr)


if __name__ == "__main__":
    main()
