"""XH worker: decide one harness instance with CrossHair (symbolic execution + z3).

  python -m engine.xh --module harness.C05 --fn h_map --inst '{"N":2}' --timeout 60

Prints one JSON line:  {"status": CONFIRMED|REFUTED|UNKNOWN|PRE_UNSAT|ERROR, "paths":…, "queries":…,
"solver_s":…, "wall_s":…, "args": {...counterexample...}, "message": "...", "covered": [...]}

The Conditions object is built directly (no docstring parsing): signature = the harness's flat
int parameters, preconditions = the declared ranges + the harness's `pre`, postcondition = the
harness returned a truthy value.
"""
from __future__ import annotations

import argparse
import importlib
import inspect
import json
import os
import sys
import time
import traceback

os.environ.setdefault("PYTHONHASHSEED", "0")


def _patch_crosshair():
    from crosshair import enforce

    # stock CrossHair 0.0.110 crashes inside RxPY on Callable[...][T] annotations evaluated at run
    # time when it tries to enforce callee contracts; RxPY has no contracts, so nothing is lost.
    enforce.EnforcedConditions.trace_call = lambda self, frame, fn, binding_target: None
    import z3

    stats = {"queries": 0, "solver_s": 0.0}
    orig = z3.Solver.check

    def check(self, *a):
        t = time.perf_counter()
        try:
            return orig(self, *a)
        finally:
            stats["queries"] += 1
            stats["solver_s"] += time.perf_counter() - t

    z3.Solver.check = check

    # A symbolic int compared with / added to an *integral float literal* (RxPY writes `d <= 0.0`, `max(0.0, p)`,
    # `clock += 1.0`) is promoted to real arithmetic by CrossHair, after which even a three-line function is
    # undecided in a minute (probed: DESIGN §9).  Ticks are integers, so the literal is converted exactly instead.
    from crosshair.libimpl import builtinslib as _bl

    _orig_binop = _bl.numeric_binop_internal
    _SI = _bl.SymbolicInt

    def _binop(op, a, b):
        if type(b) is float and isinstance(a, _SI) and b == b and b not in (float("inf"), float("-inf")) and b == int(b):
            b = int(b)
        elif type(a) is float and isinstance(b, _SI) and a == a and a not in (float("inf"), float("-inf")) and a == int(a):
            a = int(a)
        return _orig_binop(op, a, b)

    _bl.numeric_binop_internal = _binop
    return stats


NO_PURE_IMPORTS = {"harness.C43", "harness.C30", "harness.C31", "harness.C32", "harness.C33", "harness.C34", "harness.C35gt", "harness.C20gt", "harness.C21gt", "harness.C23gt", "harness.C22gt", "harness.C18gt"}


def analyze(module: str, fn_name: str, inst: dict, timeout: float, per_path: float | None = None) -> dict:
    t0 = time.time()
    stats = _patch_crosshair()
    from crosshair import core_and_libs  # noqa: F401  (registers the stdlib shims)
    from crosshair import core
    from crosshair.condition_parser import Conditions, ConditionExpr, POSTCONDITION, PRECONDITION
    from crosshair.options import DEFAULT_OPTIONS, AnalysisOptionSet
    from crosshair.statespace import VerificationStatus
    from crosshair.pure_importer import prefer_pure_python_imports
    from crosshair.tracers import ResumedTracing, NoTracing  # noqa: F401
    from engine import api

    # GT harnesses (gate-serialised threads) keep the C implementations of datetime/heapq: their worker threads are not traced by
    # CrossHair and no symbolic value reaches library code, while mixing pure-Python and C datetime classes breaks isinstance
    if module in NO_PURE_IMPORTS:
        import reactivex  # noqa: F401
        mod = importlib.import_module(module)
    else:
        with prefer_pure_python_imports():
            mod = importlib.import_module(module)
    fn = getattr(mod, fn_name)
    spec: api.HarnessSpec = fn.__harness__
    flat = spec.flat_params(inst)
    names = [n for n, _, _ in flat]
    captured = {}

    def body(**kw):
        a = spec.pack(inst, kw)
        r = fn(a, inst)
        api.cover("__end__")
        return r

    body.__name__ = fn_name
    body.__qualname__ = fn_name
    sig = inspect.Signature(
        [inspect.Parameter(n, inspect.Parameter.KEYWORD_ONLY, annotation=int) for n in names],
        return_annotation=bool,
    )
    filename = inspect.getsourcefile(fn) or "<harness>"
    line = fn.__code__.co_firstlineno

    def mkpre(n, lo, hi):
        return ConditionExpr(PRECONDITION, lambda b: lo <= b[n] <= hi, filename, line, "%d <= %s <= %d" % (lo, n, hi))

    pre = [mkpre(n, lo, hi) for n, lo, hi in flat]
    if spec.pre is not None:
        pre.append(
            ConditionExpr(PRECONDITION, lambda b: spec.pre(spec.pack(inst, b), inst), filename, line, "pre(a, inst)")
        )
    post = [ConditionExpr(POSTCONDITION, lambda b: bool(b["_"]), filename, line, "harness returns True")]

    def describe(args, retval, reprs):
        from crosshair.core import deep_realize

        d = {}
        for k, v in args.arguments.items():
            v = deep_realize(v)
            d[k] = int(v) if isinstance(v, (int, bool)) else v
        captured["args"] = d
        return ("%s(%s)" % (fn_name, ", ".join("%s=%r" % kv for kv in d.items())), repr(retval))

    conditions = Conditions(
        fn=body, src_fn=fn, pre=pre, post=post, raises=frozenset(), sig=sig, mutable_args=None,
        fn_syntax_messages=[], counterexample_description_maker=describe,
    )
    optset = AnalysisOptionSet(per_condition_timeout=float(timeout))
    if per_path is not None:
        optset = optset.overlay(per_path_timeout=float(per_path))
    options = DEFAULT_OPTIONS.overlay(optset)
    import collections

    options.stats = collections.Counter()
    options.deadline = time.process_time() + options.per_condition_timeout
    res = {"module": module, "fn": fn_name, "inst": inst}
    try:
        from crosshair.condition_parser import condition_parser

        with condition_parser(options.analysis_kind):
            analysis = core.analyze_calltree(options, conditions)
    except BaseException as e:  # CrossHair internal failure: harness error, never a pass
        res.update(status="ERROR", message="".join(traceback.format_exception_only(type(e), e)).strip(),
                   traceback=traceback.format_exc()[-3000:])
    else:
        st = analysis.verification_status
        msgs = [(m.state.name, m.message) for m in analysis.messages]
        if any(s == "PRE_UNSAT" for s, _ in msgs):
            status = "PRE_UNSAT"
        elif st == VerificationStatus.CONFIRMED:
            status = "CONFIRMED"
        elif st == VerificationStatus.REFUTED:
            status = "REFUTED"
        else:
            status = "UNKNOWN"
        res.update(status=status, paths=analysis.num_confirmed_paths, iterations=int(options.stats.get("num_paths", 0)),
                   message="; ".join("%s: %s" % m for m in msgs)[:2000])
        if status == "REFUTED":
            res["args"] = captured.get("args")
            tb = [m.traceback for m in analysis.messages if m.traceback]
            if tb:
                res["traceback"] = tb[0][-3000:]
        if status == "CONFIRMED" and analysis.num_confirmed_paths == 0:
            res["status"] = "UNKNOWN"
            res["message"] = "vacuous: no confirmed path"
    res.update(queries=stats["queries"], solver_s=round(stats["solver_s"], 3), wall_s=round(time.time() - t0, 2),
               covered=sorted(api.COVERED), params=[[n, lo, hi] for n, lo, hi in flat])
    return res


def main():
    ap = argparse.ArgumentParser()
    ap.add_argument("--module", required=True)
    ap.add_argument("--fn", required=True)
    ap.add_argument("--inst", default="{}")
    ap.add_argument("--timeout", type=float, default=60)
    ap.add_argument("--per-path", type=float, default=None)
    a = ap.parse_args()
    sys.path.insert(0, os.path.dirname(os.path.dirname(os.path.abspath(__file__))))
    res = analyze(a.module, a.fn, json.loads(a.inst), a.timeout, a.per_path)
    sys.stdout.flush()
    print("XHRESULT " + json.dumps(res, default=repr))
    sys.stdout.flush()
    os._exit(0)


if __name__ == "__main__":
    main()
