"""Concrete replay of a harness instance on the real code, without CrossHair.

  python -m engine.replay --module harness.C05 --fn h_falsy --inst '{...}' --args '{"v0":0,...}' [--stock]
  python -m engine.replay --file evidence/replays/C05-....json [--stock]
  python -m engine.replay --batch file.json     # [{module, fn, inst, args, stock}] -> one JSON line per entry

exit 0: the harness returned True (property held on this input); exit 1: it returned False or raised
(violation reproduced); exit 2: the replay itself could not run.
"""
from __future__ import annotations

import argparse
import importlib
import json
import os
import sys
import traceback

sys.path.insert(0, os.path.dirname(os.path.dirname(os.path.abspath(__file__))))


def run_concrete(module, fn_name, inst, args):
    mod = importlib.import_module(module)
    fn = getattr(mod, fn_name)
    if not hasattr(fn, "__harness__"):
        # jobs of the non-CrossHair engines replay through their module's own replay(fn_name, inst, args) -> (ok, detail)
        return mod.replay(fn_name, inst, args)
    spec = fn.__harness__
    a = spec.pack(inst, args)
    try:
        r = fn(a, inst)
    except Exception as e:  # an exception escaping the harness is a violation
        return False, "raised " + "".join(traceback.format_exception_only(type(e), e)).strip() + "\n" + traceback.format_exc()[-1500:]
    return bool(r), "returned %r" % (r,)


def main():
    ap = argparse.ArgumentParser()
    ap.add_argument("--module")
    ap.add_argument("--fn")
    ap.add_argument("--inst", default="{}")
    ap.add_argument("--args", default="{}")
    ap.add_argument("--file")
    ap.add_argument("--batch")
    ap.add_argument("--stock", action="store_true")
    a = ap.parse_args()
    if a.stock:
        os.environ["VERIF_STOCK"] = "1"
    if a.batch:
        for e in json.load(open(a.batch)):
            os.environ["VERIF_STOCK"] = "1" if e.get("stock") else "0"
            try:
                ok, detail = run_concrete(e["module"], e["fn"], e["inst"], e["args"])
                print("REPLAY " + json.dumps({"key": e.get("key"), "ok": ok, "detail": detail[:300]}))
            except BaseException as ex:
                print("REPLAY " + json.dumps({"key": e.get("key"), "ok": None, "detail": repr(ex)[:300]}))
            sys.stdout.flush()
        os._exit(0)
    if a.file:
        d = json.load(open(a.file))
        module, fn, inst, args = d["module"], d["fn"], d["inst"], d["args"]
        if d.get("env"):
            os.environ.update(d["env"])
    else:
        module, fn, inst, args = a.module, a.fn, json.loads(a.inst), json.loads(a.args)
    try:
        ok, detail = run_concrete(module, fn, inst, args)
    except BaseException:
        traceback.print_exc()
        os._exit(2)
    print(("HOLDS " if ok else "VIOLATED ") + detail)
    sys.stdout.flush()
    os._exit(0 if ok else 1)


if __name__ == "__main__":
    main()
