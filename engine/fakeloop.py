"""Contract stub of an asyncio event loop for the gate-thread engine.

Models what the asyncio documentation and BaseEventLoop promise, on the controlled clock of engine.gate:
  * call_soon / call_later are loop-thread-only (no wake-up); call_soon_threadsafe appends and wakes the loop;
  * time() is the loop's monotonic clock;
  * one iteration = move due timers to the ready queue (in due-time order), then run the handles that were ready at the start of
    the iteration, in order, skipping a handle whose cancelled flag is set *when it is dequeued* (BaseEventLoop._run_once);
  * Handle.cancel() just sets the flag (it is not thread-safe: calling it from a foreign thread races the dequeue check);
  * is_running() is true while run_*() executes; asyncio.get_running_loop() raises RuntimeError on a thread that runs no loop.
The module is watched by the gate (yield points at its writes and calls), so a foreign thread can be scheduled between the
cancelled-check and the callback, exactly as under the real interpreter.
"""
import threading
from collections import deque

from engine import gate


class Handle:
    def __init__(self, cb, when=None):
        self._cb, self._cancelled, self._when = cb, False, when

    def cancel(self):
        self._cancelled = True

    def cancelled(self):
        return self._cancelled

    def _run(self):
        self._cb()


class FakeLoop:
    def __init__(self):
        self._ready = deque()
        self._timers = []
        self._running = False
        self._thread = None
        self._stop = False
        self._cond = gate.GateCondition(gate.GateLock())
        self._nseq = 0

    # ---- clock
    def time(self):
        return gate.Clock.t

    def is_running(self):
        return self._running

    # ---- registration
    def call_soon(self, cb, *a):
        h = Handle(cb)
        self._ready.append(h)
        return h

    def call_soon_threadsafe(self, cb, *a):
        h = Handle(cb)
        with self._cond:
            self._ready.append(h)
            self._cond.notify_all()
        return h

    def call_later(self, delay, cb, *a):
        self._nseq += 1
        h = Handle(cb, (self.time() + delay, self._nseq))
        self._timers.append(h)
        return h

    def stop(self):
        self._stop = True

    # ---- running
    def _run_once(self, deadline):
        """returns False when the loop should return (stop requested or the run deadline was reached while idle)"""
        now = self.time()
        due = sorted([h for h in self._timers if h._when[0] <= now], key=lambda h: h._when)
        for h in due:
            self._timers.remove(h)
            if not h._cancelled:
                self._ready.append(h)
        if not self._ready:
            live = [h._when[0] for h in self._timers if not h._cancelled]
            nxt = min(live) if live else None
            if deadline is not None:
                nxt = deadline if nxt is None else min(nxt, deadline)
            if deadline is not None and now >= deadline:
                return False
            with self._cond:
                if not self._ready and not self._stop:
                    self._cond.wait(None if nxt is None else max(0.0, nxt - now))
            return not self._stop
        ntodo = len(self._ready)
        for _ in range(ntodo):
            h = self._ready.popleft()
            if h._cancelled:
                continue
            h._run()
        return not self._stop

    def run_for(self, seconds=None):
        """run_forever() (seconds None: returns on stop()) / run_until_complete(asyncio.sleep(seconds))"""
        self._running, self._thread, self._stop = True, threading.get_ident(), False
        deadline = None if seconds is None else self.time() + seconds
        try:
            while self._run_once(deadline):
                pass
        finally:
            self._running, self._thread = False, None


class AsyncioShim:
    """stands in for the `asyncio` module name inside the scheduler modules"""

    def __init__(self, loops):
        self.loops = loops

    def get_running_loop(self):
        me = threading.get_ident()
        for lp in self.loops:
            if lp._running and lp._thread == me:
                return lp
        raise RuntimeError("no running event loop")

    class Handle:  # annotations only
        pass

    class AbstractEventLoop:
        pass


class GateFuture:
    """concurrent.futures.Future contract (set_result / result) on gate-aware primitives"""

    def __init__(self):
        self._ev, self._val = gate.GateEvent(), None

    def set_result(self, v):
        self._val = v
        self._ev.set()

    def result(self, timeout=None):
        self._ev.wait(timeout)
        return self._val

    @classmethod
    def __class_getitem__(cls, item):
        return cls
