from reactivex.testing import TestScheduler
from reactivex.scheduler import VirtualTimeScheduler

class Span:
    """relative time in integer ticks (stands in for timedelta)"""
    __slots__ = ("t",)
    def __init__(self, t): self.t = t
    def total_seconds(self): return self.t
    # the timedelta fields of a whole number of ticks (1 tick = 1 s): small spans only, so days == 0 unless negative
    @property
    def seconds(self): return self.t % 86400
    @property
    def days(self): return self.t // 86400
    @property
    def microseconds(self): return 0
    def __add__(self, o): return Span(self.t + _sp(o))
    __radd__ = __add__
    def __sub__(self, o): return Span(self.t - _sp(o))
    def __neg__(self): return Span(-self.t)
    def __lt__(self, o): return self.t < _sp(o)
    def __le__(self, o): return self.t <= _sp(o)
    def __gt__(self, o): return self.t > _sp(o)
    def __ge__(self, o): return self.t >= _sp(o)
    def __eq__(self, o): return isinstance(o, Span) and self.t == o.t
    def __hash__(self): return hash(("S", self.t))
    def __bool__(self): return self.t != 0          # timedelta(0) is falsy
    def __repr__(self): return f"Span({self.t})"
import datetime as _dt
def _sp(o):
    if isinstance(o, Span): return o.t
    if isinstance(o, _dt.timedelta):
        # real timedelta constants used by RxPY (DELTA_ZERO, timedelta.max): keep them integral so that
        # comparisons with symbolic ticks stay in integer arithmetic (a float constant makes z3 crawl)
        if o == _dt.timedelta.max: return 10 ** 15
        if o == _dt.timedelta.min: return -10 ** 15
        s = o.total_seconds()
        return int(s) if s == int(s) else s
    raise TypeError(o)

class Tick:
    """absolute time in integer ticks (stands in for an aware datetime; always truthy)"""
    __slots__ = ("t",)
    def __init__(self, t): self.t = t
    def __add__(self, o): return Tick(self.t + _sp(o))
    __radd__ = __add__
    def __sub__(self, o):
        if isinstance(o, Tick): return Span(self.t - o.t)
        return Tick(self.t - _sp(o))
    def __lt__(self, o): return self.t < o.t
    def __le__(self, o): return self.t <= o.t
    def __gt__(self, o): return self.t > o.t
    def __ge__(self, o): return self.t >= o.t
    def __eq__(self, o): return isinstance(o, Tick) and self.t == o.t
    def __hash__(self): return hash(("T", self.t))
    def __repr__(self): return f"Tick({self.t})"

def _num(o):
    """plain number out of a TSec / integral float (keeps z3 in integer arithmetic: a symbolic int compared with a
    float literal such as `d <= 0.0` sends CrossHair into real arithmetic and a trivial function becomes undecided)"""
    if isinstance(o, TSec): return o.t
    if isinstance(o, float) and o == int(o): return int(o)
    return o


class TSec:
    """seconds as returned by to_seconds(): an int of ticks that tolerates RxPY's float literals (0.0, 1.0)"""
    __slots__ = ("t",)
    def __init__(self, t): self.t = _num(t)
    def __lt__(self, o): return self.t < _num(o)
    def __le__(self, o): return self.t <= _num(o)
    def __gt__(self, o): return self.t > _num(o)
    def __ge__(self, o): return self.t >= _num(o)
    def __eq__(self, o):
        if isinstance(o, (TSec, int, float)): return self.t == _num(o)
        return NotImplemented
    def __ne__(self, o):
        r = self.__eq__(o)
        return r if r is NotImplemented else not r
    def __hash__(self): return hash(self.t)
    def __bool__(self): return self.t != 0
    def __add__(self, o): return TSec(self.t + _num(o))
    __radd__ = __add__
    def __sub__(self, o): return TSec(self.t - _num(o))
    def __rsub__(self, o): return TSec(_num(o) - self.t)
    def __mul__(self, o): return TSec(self.t * _num(o))
    __rmul__ = __mul__
    def __neg__(self): return TSec(-self.t)
    def __int__(self): return int(self.t)
    def __index__(self): return int(self.t)
    def __float__(self): return float(self.t)
    def __repr__(self): return f"TSec({self.t})"


class TickMixin:
    @classmethod
    def to_datetime(cls, value):
        if isinstance(value, Tick): return value
        if isinstance(value, Span): return Tick(value.t)
        return Tick(_num(value))
    @classmethod
    def to_timedelta(cls, value):
        if isinstance(value, Span): return value
        if isinstance(value, Tick): return Span(value.t)
        if isinstance(value, _dt.timedelta): return Span(_sp(value))
        return Span(_num(value))
    @classmethod
    def to_seconds(cls, value):
        # plain ints of ticks (engine/xh.py makes CrossHair compare a symbolic int with an integral float literal such
        # as `d <= 0.0` in integer arithmetic; TSec is kept for code that wants an explicit wrapper)
        if isinstance(value, (Tick, Span)): return value.t
        if isinstance(value, _dt.timedelta): return _sp(value)
        return _num(value)
    @property
    def clock(self):
        """the clock reading as a plain int of ticks"""
        return _num(self._get_clock())


class TickScheduler(TickMixin, TestScheduler):
    def schedule_absolute(self, duetime, action, state=None):
        return VirtualTimeScheduler.schedule_absolute(self, self.to_seconds(duetime), action, state)


class TickVTS(TickMixin, VirtualTimeScheduler):
    """the plain VirtualTimeScheduler on integer ticks"""


import os as _os


def make_scheduler(**kw):
    """TickScheduler (symbolic-friendly stub) or, for stock replays (VERIF_STOCK=1), the repository's own TestScheduler."""
    if _os.environ.get("VERIF_STOCK") == "1":
        return TestScheduler(**kw)
    return TickScheduler(**kw)
