from reactivex.testing import TestScheduler
from reactivex.scheduler import VirtualTimeScheduler

class Span:
    """relative time in integer ticks (stands in for timedelta)"""
    __slots__ = ("t",)
    def __init__(self, t): self.t = t
    def total_seconds(self): return self.t
    def __add__(self, o): return Span(self.t + _sp(o))
    __radd__ = __add__
    def __sub__(self, o): return Span(self.t - _sp(o))
    def __neg__(self): return Span(-self.t)
    def __lt__(self, o): return self.t < _sp(o)
    def __le__(self, o): return self.t <= _sp(o)
    def __gt__(self, o): return self.t > _sp(o)
    def __ge__(self, o): return self.t >= _sp(o)
    def __eq__(self, o): return isinstance(o, Span) and self.t == o.t
    def __hash__(self): return hash(("S", self.t))
    def __bool__(self): return self.t != 0          # timedelta(0) is falsy
    def __repr__(self): return f"Span({self.t})"
import datetime as _dt
def _sp(o):
    if isinstance(o, Span): return o.t
    if isinstance(o, _dt.timedelta):
        # real timedelta constants used by RxPY (DELTA_ZERO, timedelta.max): keep them integral so that
        # comparisons with symbolic ticks stay in integer arithmetic (a float constant makes z3 crawl)
        if o == _dt.timedelta.max: return 10 ** 15
        if o == _dt.timedelta.min: return -10 ** 15
        s = o.total_seconds()
        return int(s) if s == int(s) else s
    raise TypeError(o)

class Tick:
    """absolute time in integer ticks (stands in for an aware datetime; always truthy)"""
    __slots__ = ("t",)
    def __init__(self, t): self.t = t
    def __add__(self, o): return Tick(self.t + _sp(o))
    __radd__ = __add__
    def __sub__(self, o):
        if isinstance(o, Tick): return Span(self.t - o.t)
        return Tick(self.t - _sp(o))
    def __lt__(self, o): return self.t < o.t
    def __le__(self, o): return self.t <= o.t
    def __gt__(self, o): return self.t > o.t
    def __ge__(self, o): return self.t >= o.t
    def __eq__(self, o): return isinstance(o, Tick) and self.t == o.t
    def __hash__(self): return hash(("T", self.t))
    def __repr__(self): return f"Tick({self.t})"

class TickMixin:
    @classmethod
    def to_datetime(cls, value):
        if isinstance(value, Tick): return value
        if isinstance(value, Span): return Tick(value.t)
        return Tick(value)
    @classmethod
    def to_timedelta(cls, value):
        if isinstance(value, Span): return value
        if isinstance(value, Tick): return Span(value.t)
        if isinstance(value, _dt.timedelta): return Span(int(value.total_seconds()))
        return Span(value)
    @classmethod
    def to_seconds(cls, value):
        if isinstance(value, (Tick, Span)): return value.t
        return value


class TickScheduler(TickMixin, TestScheduler):
    def schedule_absolute(self, duetime, action, state=None):
        return VirtualTimeScheduler.schedule_absolute(self, self.to_seconds(duetime), action, state)


class TickVTS(TickMixin, VirtualTimeScheduler):
    """the plain VirtualTimeScheduler on integer ticks"""


import os as _os


def make_scheduler(**kw):
    """TickScheduler (symbolic-friendly stub) or, for stock replays (VERIF_STOCK=1), the repository's own TestScheduler."""
    if _os.environ.get("VERIF_STOCK") == "1":
        return TestScheduler(**kw)
    return TickScheduler(**kw)
