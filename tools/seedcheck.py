#!/usr/bin/env python3
"""tools/seedcheck.py <outdir> <i> <name> [--props C05,C08] : verify a seeded defect produced by a sub-agent and run the checks on it.
Steps (all in a scratch worktree under /tmp/sc, removed afterwards): demo on clean tree passes; patch applies; demo on
patched tree fails; full pinned test suite passes on the patched tree; ./vcheck <prop> --tier quick with VERIF_REPO=<scratch>.
Keeps the change under /verif/seeded/<name>/ (patch.diff, demo.py, meta.json)."""
import json, os, shutil, subprocess, sys, time
out, i, name = sys.argv[1], sys.argv[2], sys.argv[3]
props = None
tier = "quick"
for a in sys.argv[4:]:
    if a.startswith("--props="): props = a[8:].split(",")
    if a.startswith("--tier="): tier = a[7:]
only = {}
for a in sys.argv[4:]:
    if a.startswith("--only="):  # --only=C05:h_falsy,C04:h_varying.take_last  (restrict a check to matching instances: faster triage)
        for kv in a[7:].split(","):
            k, v = kv.split(":", 1); only[k] = v
pid = name.split("-")[0]
props = props or [pid]
V = "/verif"
patch = os.path.join(out, "patch%s.diff" % i); demo = os.path.join(out, "demo%s.py" % i); notes = os.path.join(out, "notes%s.md" % i)
sc = "/tmp/sc/%s" % name
os.makedirs("/tmp/sc", exist_ok=True)
def sh(cmd, **kw):
    return subprocess.run(cmd, shell=True, capture_output=True, text=True, **kw)
sh("git -C /repo worktree remove --force %s" % sc)
r = sh("git -C /repo worktree add --detach %s HEAD" % sc); assert r.returncode == 0, r.stderr
meta = {"property": pid, "name": name, "ran": []}
try:
    env = dict(os.environ, PYTHONPATH=sc)
    r = sh("timeout 120 /venv/bin/python %s" % demo, cwd=sc, env=env); meta["demo_clean_rc"] = r.returncode
    r = sh("git apply %s" % patch, cwd=sc); assert r.returncode == 0, "patch does not apply: " + r.stderr
    r = sh("timeout 120 /venv/bin/python %s" % demo, cwd=sc, env=env); meta["demo_patched_rc"] = r.returncode
    meta["demo_patched_tail"] = (r.stdout + r.stderr)[-400:]
    if "--skip-suite" not in sys.argv:
        r = sh("timeout 1800 /venv/bin/python -m pytest -q -p no:cacheprovider --timeout=900 -n 8 2>&1 | tail -3", cwd=sc, env=env)
        meta["suite_patched"] = r.stdout.strip().splitlines()[-1] if r.stdout.strip() else r.stderr[-200:]
    meta["checks"] = {}
    for p in props:
        t0 = time.time()
        r = sh("./vcheck %s --tier %s --no-evidence%s" % (p, tier, (" --only " + only[p]) if p in only else ""), cwd=V, env=dict(os.environ, VERIF_REPO=sc))
        vio = [l for l in r.stdout.splitlines() if l.startswith("VIOLATION")]
        meta["checks"][p] = {"rc": r.returncode, "violations": len(vio), "wall_s": round(time.time() - t0), "summary": r.stdout.splitlines()[0] if r.stdout else r.stderr[-300:],
                             "first": [l for l in r.stdout.splitlines() if "counterexample" in l][:2]}
        meta["ran"].append("VERIF_REPO=<scratch worktree with patch> ./vcheck %s --tier %s%s" % (p, tier, (" --only " + only[p]) if p in only else ""))
finally:
    sh("git -C /repo worktree remove --force %s" % sc)
ok = meta.get("demo_clean_rc") == 0 and meta.get("demo_patched_rc") not in (0, None) and ("passed" in meta.get("suite_patched", "passed") and "failed" not in meta.get("suite_patched", ""))
meta["confirmed"] = ok
meta["caught_by"] = [p for p, c in meta.get("checks", {}).items() if c["rc"] == 1 and c["violations"] > 0]
meta["needs"] = open(notes).read()[:1500] if os.path.exists(notes) else ""
if ok:
    d = os.path.join(V, "seeded", name); os.makedirs(d, exist_ok=True)
    shutil.copy(patch, os.path.join(d, "patch.diff")); shutil.copy(demo, os.path.join(d, "demo.py"))
    json.dump(meta, open(os.path.join(d, "meta.json"), "w"), indent=1)
print(json.dumps({k: meta[k] for k in ("name", "confirmed", "demo_clean_rc", "demo_patched_rc", "suite_patched", "caught_by", "checks") if k in meta}, indent=1))
