#!/usr/bin/env python3
"""Regenerates MANIFEST.json from the harness modules' metadata (MANIFEST dict in each harness/Cxx.py) and
tools/not_applicable.json.  Run: .venv/bin/python tools/mkmanifest.py"""
import importlib, json, os, sys
V = os.path.dirname(os.path.dirname(os.path.abspath(__file__)))
sys.path.insert(0, V)
props = [json.loads(l) for l in open(os.path.join(V, "properties.jsonl"))]
na_file = os.path.join(V, "tools", "not_applicable.json")
NA = json.load(open(na_file)) if os.path.exists(na_file) else {}
checks, na = [], []
for p in props:
    pid = p["id"]
    path = os.path.join(V, "harness", pid + ".py")
    if os.path.exists(path) and pid not in NA:
        m = importlib.import_module("harness." + pid)
        md = getattr(m, "MANIFEST", {})
        checks.append({
            "property_id": pid,
            "quick_cmd": "./vcheck %s --tier quick" % pid,
            "thorough_cmd": "./vcheck %s --tier thorough" % pid,
            "evidence_file": "evidence/%s.json" % pid,
            "replay_cmd_template": "./vcheck replay {path}",
            "engine": md.get("engine", "XH"),
            "level_claimed": {"category": getattr(m, "LEVEL", "model_checking"), "text": md["text"], "design_ref": "DESIGN.md §4 " + pid},
            "level_note": md["note"],
            "technique": md.get("technique", "symbolic execution of the real RxPY code with CrossHair; z3 decides every branch; all paths within stated bounds exhausted; counterexamples replayed concretely"),
        })
    else:
        na.append({"property_id": pid, "reason": NA.get(pid, "no check built yet in this session (work in progress); see DESIGN.md §4 " + pid)})
man = {
    "version": 1,
    "setup_cmd": "./setup.sh",
    "hooks": {"guard": "REACTIVEX_RXPY_VERIF", "enable": "no source hooks: all instrumentation is harness-side (subclassing, rebinding module-level names, sys.monitoring)",
              "baseline_off_cmd": "cd /repo && /venv/bin/python -m pytest -ra -q -p no:cacheprovider --timeout=900 --continue-on-collection-errors",
              "source_commits": [], "add_only": True},
    "engines": [
        {"name": "XH", "path": "engine/xh.py", "serves_properties": [c["property_id"] for c in checks if "XH" in c["engine"]],
         "kind_free_text": "CrossHair symbolic execution of harnesses over the real RxPY modules; z3 decides each branch; path tree exhausted within bounds"},
        {"name": "GT", "path": "engine/gate.py", "serves_properties": [c["property_id"] for c in checks if "GT" in c["engine"]],
         "kind_free_text": "gate-serialised real threads; preemption schedule symbolic under CrossHair/z3"},
        {"name": "BMC", "path": "engine/pyts", "serves_properties": [c["property_id"] for c in checks if "BMC" in c["engine"]],
         "kind_free_text": "Python AST -> micro-step transition system -> z3 bounded model checking over all interleavings"},
        {"name": "FPK", "path": "engine/fpk.py", "serves_properties": [c["property_id"] for c in checks if "FPK" in c["engine"]],
         "kind_free_text": "SMT arithmetic kernel (z3, cvc5 cross-check) for time conversions"},
    ],
    "checks": checks,
    "not_applicable": na,
    "notes": "Solver-based checking of the real code; see DESIGN.md. Every check regenerates its encoding from /repo's working tree on each run.",
}
json.dump(man, open(os.path.join(V, "MANIFEST.json"), "w"), indent=1)
print("checks:", [c["property_id"] for c in checks]); print("not_applicable:", len(na))
