#!/usr/bin/env python3
"""Regenerates the machine-derived tables of DESIGN.md (between the BEGIN/END markers) from known_findings.json, seeded/*/meta.json
and MANIFEST.json.  The prose around them is hand-written."""
import glob
import json
import os
import re

V = os.path.dirname(os.path.dirname(os.path.abspath(__file__)))


def fixes():
    k = json.load(open(os.path.join(V, "known_findings.json")))["findings"]
    out = ["| commit | property | what failed |", "|---|---|---|"]
    for f in k:
        if f["status"] == "fixed":
            out.append("| `%s` | %s | %s |" % (f["commit"], ", ".join([f["property"]] + f.get("also", [])), f["what"].replace("|", "\\|")))
    return "\n".join(out)


def opens():
    k = json.load(open(os.path.join(V, "known_findings.json")))["findings"]
    out = ["| id | property | what fails | why it is recorded, not repaired |", "|---|---|---|---|"]
    for f in k:
        if f["status"] == "open":
            out.append("| %s | %s | %s | %s |" % (f["id"], f["property"], f["what"].replace("|", "\\|"), f.get("why_open", "see §0.5").replace("|", "\\|")))
    return "\n".join(out)


def seeded():
    out = ["| change | what it does | caught by |", "|---|---|---|"]
    for d in sorted(glob.glob(os.path.join(V, "seeded", "*", "meta.json"))):
        m = json.load(open(d))
        name = m.get("name") or os.path.basename(os.path.dirname(d))
        need = (m.get("needs") or "").split("\n")[0].lstrip("# ").strip()
        need = re.sub(r"^(Seeded|seeded|C\d\d|Seed)[^:\-—–]*[:\-—–]+\s*", "", need)
        cb = m.get("caught_by") or []
        out.append("| %s | %s | %s |" % (name, need.replace("|", "\\|")[:150], ", ".join(cb) if cb else "**missed** — " + m.get("missed_reason", "see §0.7")))
    return "\n".join(out)


def checks():
    m = json.load(open(os.path.join(V, "MANIFEST.json")))
    out = ["| property | engine | evidence (quick tier, last committed run) |", "|---|---|---|"]
    for c in m["checks"]:
        ev = os.path.join(V, c["evidence_file"])
        summ = ""
        if os.path.exists(ev):
            e = json.load(open(ev))
            cv = e.get("coverage", {})
            summ = "%s instances (all confirmed: %s), %s paths, %s solver queries, %.0f s solver, %.0f s wall" % (
                cv.get("instances", "?"), cv.get("confirmed") == cv.get("instances"), cv.get("states", "?"), cv.get("transitions", "?"),
                cv.get("solver_s", 0), e.get("wall_s", 0))
        out.append("| %s | %s | %s |" % (c["property_id"], c.get("engine", ""), summ))
    return "\n".join(out)


def main():
    p = os.path.join(V, "DESIGN.md")
    s = open(p).read()
    for tag, fn in (("fixes", fixes), ("open", opens), ("seeded", seeded), ("checks", checks)):
        b, e = "<!-- BEGIN:%s -->" % tag, "<!-- END:%s -->" % tag
        if b in s:
            s = s[: s.index(b) + len(b)] + "\n" + fn() + "\n" + s[s.index(e):]
    open(p, "w").write(s)


if __name__ == "__main__":
    main()
